"""
Minimal ctypes binding of the real liblmdb, exposing the py-lmdb surface that
nostr_relay.storage.kv uses.  Harness-only (put on PYTHONPATH by /verif checks).

The B+tree, MVCC, cursor adjustment on delete and crash atomicity are the real C
library's (vendored at /verif/vendor/liblmdb.so).  This layer only marshals
arguments, mirrors py-lmdb's cursor caching rules (see CONTRACT.md) and offers
a fault hook for the C07/C10 checks:

    lmdb.set_fault_hook(fn)     fn(op, key) is called before every put/delete
                                of a write transaction; it may raise lmdb.Error
                                (engine failure) or os._exit (process kill).
    lmdb.set_trace_hook(fn)     fn(record) receives cursor-level events.
"""
import ctypes
import os
import threading

_here = os.path.dirname(os.path.abspath(__file__))
_libpath = os.environ.get(
    "VERIF_LIBLMDB", os.path.join(_here, "..", "..", "vendor", "liblmdb.so")
)
_lib = ctypes.CDLL(os.path.abspath(_libpath))

version = lambda: (0, 9, 31)  # noqa: E731
__version__ = "shim-0.9.31"


class _Val(ctypes.Structure):
    _fields_ = [("mv_size", ctypes.c_size_t), ("mv_data", ctypes.c_void_p)]


class _Stat(ctypes.Structure):
    _fields_ = [
        ("ms_psize", ctypes.c_uint),
        ("ms_depth", ctypes.c_uint),
        ("ms_branch_pages", ctypes.c_size_t),
        ("ms_leaf_pages", ctypes.c_size_t),
        ("ms_overflow_pages", ctypes.c_size_t),
        ("ms_entries", ctypes.c_size_t),
    ]


_P = ctypes.c_void_p
_lib.mdb_strerror.restype = ctypes.c_char_p
_lib.mdb_strerror.argtypes = [ctypes.c_int]
_lib.mdb_env_create.argtypes = [ctypes.POINTER(_P)]
_lib.mdb_env_set_mapsize.argtypes = [_P, ctypes.c_size_t]
_lib.mdb_env_set_maxreaders.argtypes = [_P, ctypes.c_uint]
_lib.mdb_env_set_maxdbs.argtypes = [_P, ctypes.c_uint]
_lib.mdb_env_open.argtypes = [_P, ctypes.c_char_p, ctypes.c_uint, ctypes.c_uint]
_lib.mdb_env_close.argtypes = [_P]
_lib.mdb_env_close.restype = None
_lib.mdb_env_stat.argtypes = [_P, ctypes.POINTER(_Stat)]
_lib.mdb_env_get_maxkeysize.argtypes = [_P]
_lib.mdb_env_get_maxkeysize.restype = ctypes.c_int
_lib.mdb_env_sync.argtypes = [_P, ctypes.c_int]
_lib.mdb_txn_begin.argtypes = [_P, _P, ctypes.c_uint, ctypes.POINTER(_P)]
_lib.mdb_txn_commit.argtypes = [_P]
_lib.mdb_txn_abort.argtypes = [_P]
_lib.mdb_txn_abort.restype = None
_lib.mdb_dbi_open.argtypes = [_P, ctypes.c_char_p, ctypes.c_uint, ctypes.POINTER(ctypes.c_uint)]
_lib.mdb_get.argtypes = [_P, ctypes.c_uint, ctypes.POINTER(_Val), ctypes.POINTER(_Val)]
_lib.mdb_put.argtypes = [_P, ctypes.c_uint, ctypes.POINTER(_Val), ctypes.POINTER(_Val), ctypes.c_uint]
_lib.mdb_del.argtypes = [_P, ctypes.c_uint, ctypes.POINTER(_Val), ctypes.POINTER(_Val)]
_lib.mdb_cursor_open.argtypes = [_P, ctypes.c_uint, ctypes.POINTER(_P)]
_lib.mdb_cursor_close.argtypes = [_P]
_lib.mdb_cursor_close.restype = None
_lib.mdb_cursor_get.argtypes = [_P, ctypes.POINTER(_Val), ctypes.POINTER(_Val), ctypes.c_int]

MDB_NOSUBDIR = 0x4000
MDB_NOSYNC = 0x10000
MDB_RDONLY = 0x20000
MDB_NOMETASYNC = 0x40000
MDB_WRITEMAP = 0x80000
MDB_MAPASYNC = 0x100000
MDB_NOTLS = 0x200000
MDB_NOLOCK = 0x400000
MDB_NORDAHEAD = 0x800000
MDB_NOMEMINIT = 0x1000000

MDB_FIRST, MDB_GET_CURRENT, MDB_LAST, MDB_NEXT, MDB_PREV, MDB_SET_KEY, MDB_SET_RANGE = 0, 4, 6, 8, 12, 16, 17

MDB_KEYEXIST = -30799
MDB_NOTFOUND = -30798
MDB_MAP_FULL = -30792
MDB_BAD_VALSIZE = -30781
MDB_NOOVERWRITE = 0x10


class Error(Exception):
    pass


class KeyExistsError(Error):
    pass


class NotFoundError(Error):
    pass


class MapFullError(Error):
    pass


class BadValsizeError(Error):
    pass


class InjectedError(Error):
    """raised by fault hooks of the verification harness"""


_ERRMAP = {
    MDB_KEYEXIST: KeyExistsError,
    MDB_NOTFOUND: NotFoundError,
    MDB_MAP_FULL: MapFullError,
    MDB_BAD_VALSIZE: BadValsizeError,
}


def _check(rc, what):
    if rc:
        msg = _lib.mdb_strerror(rc).decode("utf8", "replace")
        raise _ERRMAP.get(rc, Error)(f"{what}: {msg}")


_fault_hook = None
_trace_hook = None


def set_fault_hook(fn):
    global _fault_hook
    _fault_hook = fn


def set_trace_hook(fn):
    global _trace_hook
    _trace_hook = fn


def _mkval(data):
    if isinstance(data, memoryview):
        data = data.tobytes()
    elif isinstance(data, bytearray):
        data = bytes(data)
    elif not isinstance(data, bytes):
        raise TypeError("lmdb keys/values must be bytes-like, not %s" % type(data).__name__)
    buf = ctypes.create_string_buffer(data, len(data))
    v = _Val(len(data), ctypes.cast(buf, ctypes.c_void_p))
    v._keep = buf
    return v


def _fromval(v):
    if not v.mv_size:
        return b""
    return ctypes.string_at(v.mv_data, v.mv_size)


class Environment:
    def __init__(
        self,
        path,
        map_size=10485760,
        subdir=True,
        readonly=False,
        metasync=True,
        sync=True,
        map_async=False,
        mode=0o755,
        create=True,
        readahead=True,
        writemap=False,
        meminit=True,
        max_readers=126,
        max_dbs=0,
        max_spare_txns=1,
        lock=True,
    ):
        self._env = _P()
        self._closed = False
        self._lock = threading.Lock()
        self._open_txns = set()
        _check(_lib.mdb_env_create(ctypes.byref(self._env)), "mdb_env_create")
        try:
            _check(_lib.mdb_env_set_mapsize(self._env, int(map_size)), "set_mapsize")
            _check(_lib.mdb_env_set_maxreaders(self._env, int(max_readers)), "set_maxreaders")
            if max_dbs:
                _check(_lib.mdb_env_set_maxdbs(self._env, int(max_dbs)), "set_maxdbs")
            flags = MDB_NOTLS
            if not subdir:
                flags |= MDB_NOSUBDIR
            if readonly:
                flags |= MDB_RDONLY
            if not metasync:
                flags |= MDB_NOMETASYNC
            if not sync:
                flags |= MDB_NOSYNC
            if map_async:
                flags |= MDB_MAPASYNC
            if not readahead:
                flags |= MDB_NORDAHEAD
            if writemap:
                flags |= MDB_WRITEMAP
            if not meminit:
                flags |= MDB_NOMEMINIT
            if not lock:
                flags |= MDB_NOLOCK
            if create and subdir and not readonly:
                os.makedirs(path, mode, exist_ok=True)
            self._path = path
            self._readonly = readonly
            _check(
                _lib.mdb_env_open(self._env, os.fsencode(path), flags, mode & ~0o111),
                path,
            )
        except Exception:
            _lib.mdb_env_close(self._env)
            self._closed = True
            raise
        # main dbi handle
        t = _P()
        _check(_lib.mdb_txn_begin(self._env, None, MDB_RDONLY, ctypes.byref(t)), "txn_begin")
        dbi = ctypes.c_uint()
        _check(_lib.mdb_dbi_open(t, None, 0, ctypes.byref(dbi)), "dbi_open")
        _lib.mdb_txn_abort(t)
        self._dbi = dbi.value

    def path(self):
        return self._path

    def begin(self, db=None, parent=None, write=False, buffers=False):
        if self._closed:
            raise Error("Attempt to operate on closed/deleted/dropped object.")
        return Transaction(self, write=write, buffers=buffers)

    def max_key_size(self):
        """py-lmdb's Environment.max_key_size(): the longest key the library accepts (511 unless compiled otherwise)"""
        return int(_lib.mdb_env_get_maxkeysize(self._env))

    def stat(self):
        st = _Stat()
        _check(_lib.mdb_env_stat(self._env, ctypes.byref(st)), "env_stat")
        return {
            "psize": st.ms_psize,
            "depth": st.ms_depth,
            "branch_pages": st.ms_branch_pages,
            "leaf_pages": st.ms_leaf_pages,
            "overflow_pages": st.ms_overflow_pages,
            "entries": st.ms_entries,
        }

    def sync(self, force=False):
        _check(_lib.mdb_env_sync(self._env, 1 if force else 0), "env_sync")

    def close(self):
        with self._lock:
            if self._closed:
                return
            for txn in list(self._open_txns):
                txn.abort()
            self._closed = True
            _lib.mdb_env_close(self._env)

    def __enter__(self):
        return self

    def __exit__(self, *a):
        self.close()


class Transaction:
    def __init__(self, env, write=False, buffers=False):
        self.env = env
        self._write = write
        self._buffers = buffers
        self._txn = _P()
        self._done = False
        self._cursors = []
        self.mutations = 0
        if write and env._readonly:
            raise Error("Cannot start write transaction with read-only env")
        _check(
            _lib.mdb_txn_begin(env._env, None, 0 if write else MDB_RDONLY, ctypes.byref(self._txn)),
            "mdb_txn_begin",
        )
        env._open_txns.add(self)
        if _trace_hook and write:
            _trace_hook({"op": "begin", "write": True})

    def _wrap(self, b):
        return memoryview(b) if self._buffers else b

    def _live(self):
        if self._done:
            raise Error("Attempt to operate on closed/deleted/dropped object.")

    def get(self, key, default=None, db=None):
        self._live()
        k = _mkval(key)
        d = _Val()
        rc = _lib.mdb_get(self._txn, self.env._dbi, ctypes.byref(k), ctypes.byref(d))
        if rc == MDB_NOTFOUND:
            return default
        _check(rc, "mdb_get")
        return self._wrap(_fromval(d))

    def put(self, key, value, dupdata=True, overwrite=True, append=False, db=None):
        self._live()
        if not self._write:
            raise Error("mdb_put: Permission denied (read-only transaction)")
        k = _mkval(key)
        v = _mkval(value)
        if _fault_hook:
            _fault_hook("put", bytes(key))
        rc = _lib.mdb_put(
            self._txn, self.env._dbi, ctypes.byref(k), ctypes.byref(v), 0 if overwrite else MDB_NOOVERWRITE
        )
        self.mutations += 1
        if rc == MDB_KEYEXIST:
            return False
        _check(rc, "mdb_put")
        if _trace_hook:
            _trace_hook({"op": "put", "key": bytes(key)})
        return True

    def delete(self, key, value=b"", db=None):
        self._live()
        if not self._write:
            raise Error("mdb_del: Permission denied (read-only transaction)")
        k = _mkval(key)
        if _fault_hook:
            _fault_hook("delete", bytes(key))
        rc = _lib.mdb_del(self._txn, self.env._dbi, ctypes.byref(k), None)
        self.mutations += 1
        if rc == MDB_NOTFOUND:
            if _trace_hook:
                _trace_hook({"op": "delete", "key": bytes(key), "found": False})
            return False
        _check(rc, "mdb_del")
        if _trace_hook:
            _trace_hook({"op": "delete", "key": bytes(key), "found": True})
        return True

    def cursor(self, db=None):
        self._live()
        c = Cursor(self)
        self._cursors.append(c)
        return c

    def _finish(self):
        for c in self._cursors:
            c._close_c()
        self._cursors = []
        self._done = True
        self.env._open_txns.discard(self)

    def commit(self):
        if self._done:
            return
        if _fault_hook and self._write:
            try:
                _fault_hook("commit", b"")
            except BaseException:
                # a failing mdb_txn_commit leaves the transaction aborted
                self.abort()
                raise
        self._finish_cursors_only()
        rc = _lib.mdb_txn_commit(self._txn)
        self._done = True
        self.env._open_txns.discard(self)
        if _trace_hook and self._write:
            _trace_hook({"op": "commit", "rc": rc})
        _check(rc, "mdb_txn_commit")

    def _finish_cursors_only(self):
        for c in self._cursors:
            c._close_c()
        self._cursors = []

    def abort(self):
        if self._done:
            return
        self._finish_cursors_only()
        _lib.mdb_txn_abort(self._txn)
        self._done = True
        self.env._open_txns.discard(self)
        if _trace_hook and self._write:
            _trace_hook({"op": "abort"})

    def __enter__(self):
        return self

    def __exit__(self, exc_type, exc, tb):
        if exc_type is not None:
            self.abort()
        else:
            self.commit()

    def __del__(self):
        try:
            self.abort()
        except Exception:
            pass


class Cursor:
    def __init__(self, txn):
        self.txn = txn
        self._cur = _P()
        self._closed = False
        self._positioned = False
        self._key = b""
        self._val = b""
        self._last_mutation = txn.mutations
        _check(_lib.mdb_cursor_open(txn._txn, txn.env._dbi, ctypes.byref(self._cur)), "cursor_open")

    def _close_c(self):
        if not self._closed:
            self._closed = True
            _lib.mdb_cursor_close(self._cur)

    def close(self):
        self._close_c()
        try:
            self.txn._cursors.remove(self)
        except ValueError:
            pass

    def __enter__(self):
        return self

    def __exit__(self, *a):
        self.close()

    def _get(self, op, key=None):
        if self._closed or self.txn._done:
            raise Error("Attempt to operate on closed/deleted/dropped object.")
        k = _mkval(key) if key is not None else _Val()
        d = _Val()
        rc = _lib.mdb_cursor_get(self._cur, ctypes.byref(k), ctypes.byref(d), op)
        self._last_mutation = self.txn.mutations
        if rc == 0:
            self._positioned = True
            self._key = _fromval(k)
            self._val = _fromval(d)
        else:
            self._positioned = False
            self._key = b""
            self._val = b""
            if rc != MDB_NOTFOUND and not (rc == 22 and op == MDB_GET_CURRENT):
                _check(rc, "mdb_cursor_get")
        if _trace_hook and op != MDB_GET_CURRENT:
            _trace_hook({"op": "cursor", "cop": op, "arg": bytes(key) if key is not None else None,
                         "ok": rc == 0, "key": self._key})
        return rc == 0

    def _refresh(self):
        # py-lmdb: if the transaction mutated since the last cursor operation,
        # key()/value()/item() re-read the current position.
        if self._last_mutation != self.txn.mutations:
            self._get(MDB_GET_CURRENT)

    def first(self):
        return self._get(MDB_FIRST)

    def last(self):
        return self._get(MDB_LAST)

    def next(self):
        return self._get(MDB_NEXT)

    def prev(self):
        return self._get(MDB_PREV)

    def set_key(self, key):
        return self._get(MDB_SET_KEY, key)

    def set_range(self, key):
        if len(key) == 0:
            return self.first()
        return self._get(MDB_SET_RANGE, key)

    def key(self):
        self._refresh()
        return self.txn._wrap(self._key)

    def value(self):
        self._refresh()
        return self.txn._wrap(self._val)

    def item(self):
        self._refresh()
        return self.txn._wrap(self._key), self.txn._wrap(self._val)

    def _iter(self, op, first_op, keys, values):
        if not self._positioned:
            self._get(first_op)
        while self._positioned:
            self._refresh()
            if not self._positioned:
                break
            if keys and values:
                yield self.txn._wrap(self._key), self.txn._wrap(self._val)
            elif keys:
                yield self.txn._wrap(self._key)
            else:
                yield self.txn._wrap(self._val)
            self._get(op)

    def iternext(self, keys=True, values=True):
        return self._iter(MDB_NEXT, MDB_FIRST, keys, values)

    def iterprev(self, keys=True, values=True):
        return self._iter(MDB_PREV, MDB_LAST, keys, values)

    def __iter__(self):
        return self.iternext()

    def delete(self, dupdata=False):
        raise Error("cursor.delete is not provided by the verification shim")


def open(path, **kwargs):  # noqa: A001
    return Environment(path, **kwargs)
