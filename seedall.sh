#!/bin/sh
# usage: seedall.sh [name-prefix ...]   re-runs every recorded seeded change (or those whose directory name starts with one of
# the prefixes) against the check of the property it breaks, on a scratch worktree, and writes /verif/seeded/RESULTS.json:
# for each change the demo's verdict and whether the check raised a VIOLATION.  Sequential: about two minutes per change.
cd /verif
OUT=/verif/seeded/RESULTS.json
TMP=/tmp/seedall-$$.txt
: > $TMP
for d in /verif/seeded/*/; do
  n=$(basename $d)
  [ -f $d/patch.diff ] || continue
  if [ $# -gt 0 ]; then ok=0; for p in "$@"; do case $n in $p*) ok=1;; esac; done; [ $ok = 1 ] || continue; fi
  prop=${n%%-*}
  bc=$(python3 -c "import json,sys; print(json.load(open(sys.argv[1])).get(\"base\",\"HEAD\"))" $d/meta.json 2>/dev/null || echo HEAD)
  res=$(BASE=$bc ./seedtest.sh $d $prop 2>&1)
  base=$(echo "$res" | sed -n 's/^demo on clean tree: exit //p')
  mut=$(echo "$res" | sed -n 's/^demo with change: exit //p')
  chk=$(echo "$res" | sed -n "s/^check $prop: exit \([0-9]*\) .*/\1/p")
  nv=$(echo "$res" | sed -n "s/^check $prop: exit [0-9]* ; \([0-9]*\) violation lines.*/\1/p")
  echo "$n $prop $base $mut $chk $nv" | tee -a $TMP
done
python3 - "$TMP" "$OUT" <<'PY'
import json, sys
rows = []
for ln in open(sys.argv[1]):
    p = ln.split()
    if len(p) >= 6:
        rows.append({"change": p[0], "property": p[1], "demo_exit_clean": int(p[2]), "demo_exit_changed": int(p[3]),
                     "check_exit": int(p[4]), "violation_lines": int(p[5]), "caught": p[4] == "1" and int(p[5]) > 0})
json.dump({"results": rows, "caught": sum(r["caught"] for r in rows), "total": len(rows)}, open(sys.argv[2], "w"), indent=1)
print("%d of %d seeded changes caught" % (sum(r["caught"] for r in rows), len(rows)))
PY
rm -f $TMP
