#!/bin/sh
# usage: seedtest.sh <dir with patch.diff and demo.py> <check id> [more check ids]
# applies the seeded change to a scratch worktree of /repo (outside /repo and /verif), confirms the demonstration
# (passes without, fails with the change), runs the named checks against the scratch tree, removes the worktree.
D=$1; shift
WT=/tmp/st-$$
git -C /repo worktree add -q --detach $WT ${BASE:-HEAD} || exit 2
cd $WT
PYTHONPATH=/tmp/lmdbshim /venv/bin/python $D/demo.py > /tmp/st-demo-base.log 2>&1; echo "demo on clean tree: exit $?"
git apply $D/patch.diff || { echo "patch does not apply"; git -C /repo worktree remove --force $WT; exit 2; }
PYTHONPATH=/tmp/lmdbshim /venv/bin/python $D/demo.py > /tmp/st-demo-mut.log 2>&1; echo "demo with change: exit $?"
cd /verif
for c in "$@"; do
  VERIF_EVIDENCE_DIR=/tmp/st-evidence VERIF_REPO=$WT ./check $c --tier ${TIER:-quick} > /tmp/st-check-$c.log 2>&1; echo "check $c: exit $? ; $(grep -c '^VIOLATION' /tmp/st-check-$c.log) violation lines; $(tail -1 /tmp/st-check-$c.log)"
  grep -m2 -A1 '^VIOLATION' /tmp/st-check-$c.log | cut -c1-400
done
git -C /repo worktree remove --force $WT
