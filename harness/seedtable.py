"""Rewrites the seeded-changes table of DESIGN.md from /verif/seeded/*/meta.json:  /venv/bin/python -m harness.seedtable"""
import glob
import json
import os

from .common import VERIF

BEGIN, END = "<!-- SEEDED:BEGIN -->", "<!-- SEEDED:END -->"


def main():
    rows = ["| seeded change | breaks | needs, to manifest | caught by |", "|---|---|---|---|"]
    for d in sorted(glob.glob(os.path.join(VERIF, "seeded", "*"))):
        try:
            m = json.load(open(os.path.join(d, "meta.json")))
        except Exception:
            continue
        rows.append("| `%s` | %s | %s | %s |" % (os.path.basename(d), m["breaks_property"], m["needs_to_manifest"].replace("|", "/"),
                                              m["caught_by"].replace("|", "/")))
    text = open(os.path.join(VERIF, "DESIGN.md")).read()
    block = BEGIN + "\n" + "\n".join(rows) + "\n" + END
    if BEGIN in text:
        a, b = text.index(BEGIN), text.index(END) + len(END)
        text = text[:a] + block + text[b:]
    else:
        text = text.replace("SEEDED_TABLE_PLACEHOLDER", block)
    open(os.path.join(VERIF, "DESIGN.md"), "w").write(text)
    print("%d seeded changes listed" % (len(rows) - 2))


if __name__ == "__main__":
    main()
