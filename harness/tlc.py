"""
TLC plumbing: emit Python values as TLA+ literals, generate MC modules that
INSTANCE a specification with literal constants (fast path, see DESIGN §4.7),
run TLC, parse its statistics, coverage and the JSON lines our specs print.
"""
import json
import os
import re
import shutil
import subprocess
import tempfile
import time

from .common import VERIF, SCRATCH_BASE

SPEC_DIR = os.path.join(VERIF, "spec")
JAR = "/opt/veriftools/tla/tla2tools.jar"
CP = JAR + ":/opt/veriftools/tla/CommunityModules-deps.jar"


class TlcError(Exception):
    """machinery failure (exit 2), never a verdict"""


def tla_str(s):
    out = ['"']
    for ch in s:
        if ch == '"':
            out.append('\\"')
        elif ch == "\\":
            out.append("\\\\")
        elif ch == "\n":
            out.append("\\n")
        elif ch == "\t":
            out.append("\\t")
        elif ord(ch) < 32 or ord(ch) > 126:
            raise ValueError("non-printable character in TLA+ string: %r (abstract symbols must be ASCII)" % s)
        else:
            out.append(ch)
    out.append('"')
    return "".join(out)


class Raw(str):
    """a TLA+ expression to be emitted verbatim"""


def tla(v):
    """Python value -> TLA+ literal.  dict -> record (keys must be identifiers) , list/tuple -> sequence,
    set/frozenset -> set, bool/int/str."""
    if isinstance(v, Raw):
        return str(v)
    if isinstance(v, bool):
        return "TRUE" if v else "FALSE"
    if isinstance(v, int):
        return str(v) if v >= 0 else "(%d)" % v
    if isinstance(v, str):
        return tla_str(v)
    if isinstance(v, (list, tuple)):
        return "<<" + ", ".join(tla(x) for x in v) + ">>"
    if isinstance(v, (set, frozenset)):
        return "{" + ", ".join(sorted(tla(x) for x in v)) + "}"
    if isinstance(v, dict):
        if not v:
            return "<<>>"
        if all(isinstance(k, str) and re.fullmatch(r"[A-Za-z_][A-Za-z0-9_]*", k) for k in v):
            return "[" + ", ".join("%s |-> %s" % (k, tla(x)) for k, x in v.items()) + "]"
        return "(" + " @@ ".join("%s :> %s" % (tla(k), tla(x)) for k, x in v.items()) + ")"
    raise TypeError("cannot emit %r as TLA+" % (v,))


def opt(v):
    """optional value encoding: <<>> absent, <<v>> present"""
    return [] if v is None else [v]


def mc_module(name, spec, variables, constants, extends=("Integers", "Sequences", "FiniteSets", "TLC"), passthrough=(), extra=""):
    """
    Generate the text of module `name` that declares `variables`, defines every
    constant as a literal definition and INSTANCEs `spec` with them.
    constants: dict name -> python value (or Raw)
    passthrough: constants declared here as CONSTANT and assigned in the cfg
    """
    lines = ["---- MODULE %s ----" % name, "EXTENDS " + ", ".join(extends)]
    if passthrough:
        lines.append("CONSTANTS " + ", ".join(passthrough))
    lines.append("VARIABLES " + ", ".join(variables))
    subs = []
    for k, v in constants.items():
        lines.append("%s_def == %s" % (k, tla(v)))
        subs.append("%s <- %s_def" % (k, k))
    lines.append("INSTANCE %s WITH %s" % (spec, ", ".join(subs)) if subs else "INSTANCE %s" % spec)
    if extra:
        lines.append(extra)
    lines.append("====")
    return "\n".join(lines) + "\n"


class Workdir:
    def __init__(self, prefix="tlc-"):
        self.path = tempfile.mkdtemp(prefix=prefix, dir=SCRATCH_BASE)

    def write(self, name, text):
        p = os.path.join(self.path, name)
        with open(p, "w") as fp:
            fp.write(text)
        return p

    def cleanup(self):
        shutil.rmtree(self.path, ignore_errors=True)

    def __enter__(self):
        return self

    def __exit__(self, *a):
        self.cleanup()


def run_tlc(workdir, root, cfg, workers=1, timeout=1800, simulate=None, depth=None, seed=None, coverage=False,
            extra_args=(), heap="4g", deque=False, dump=None):
    """
    Run TLC on module `root` (file root.tla in workdir or in SPEC_DIR) with config file `cfg` (path).
    Returns dict(rc, out, wall_s).
    """
    wd = workdir.path if isinstance(workdir, Workdir) else workdir
    root_path = os.path.join(wd, root + ".tla")
    if not os.path.exists(root_path):
        root_path = os.path.join(SPEC_DIR, root + ".tla")
    meta = tempfile.mkdtemp(prefix="meta-", dir=wd)
    cmd = ["java", "-XX:+UseParallelGC", "-Xmx" + heap, "-Xss16m", "-DTLA-Library=" + SPEC_DIR]
    if deque:
        cmd.append("-Dtlc2.tool.queue.IStateQueue=StateDeque")
    cmd += ["-cp", CP, "tlc2.TLC", "-workers", str(workers), "-metadir", meta, "-noGenerateSpecTE"]
    if simulate:
        cmd += ["-simulate", simulate]
    if depth:
        cmd += ["-depth", str(depth)]
    if seed is not None:
        cmd += ["-seed", str(seed)]
    if coverage:
        cmd += ["-coverage", "1"]
    if dump:
        cmd += ["-dump", dump[0], dump[1]]
    cmd += list(extra_args)
    cmd += ["-config", cfg, root_path]
    t0 = time.time()
    try:
        p = subprocess.run(cmd, cwd=wd, stdout=subprocess.PIPE, stderr=subprocess.STDOUT, timeout=timeout, text=True,
                           errors="replace")
        out, rc = p.stdout, p.returncode
    except subprocess.TimeoutExpired as e:
        out = (e.stdout or b"")
        if isinstance(out, bytes):
            out = out.decode("utf8", "replace")
        rc = 124
    finally:
        shutil.rmtree(meta, ignore_errors=True)
    return {"rc": rc, "out": out, "wall_s": time.time() - t0, "cmd": " ".join(cmd)}


_STATS = re.compile(r"(\d[\d,]*) states generated, (\d[\d,]*) distinct states found, (\d[\d,]*) states left on queue")


def parse_stats(out):
    m = None
    for m in _STATS.finditer(out):
        pass
    if not m:
        return None
    gen, dist, left = (int(x.replace(",", "")) for x in m.groups())
    d = re.search(r"The depth of the complete state graph search is (\d+)", out)
    return {"generated": gen, "distinct": dist, "left": left, "depth": int(d.group(1)) if d else None}


def tlc_ok(res):
    """model checking finished without TLC-level error"""
    return res["rc"] == 0 and "Model checking completed. No error has been found." in res["out"]


def tlc_failed_how(out):
    """short description of a TLC failure for diagnostics"""
    try:
        os.makedirs(os.path.join(VERIF, "out"), exist_ok=True)
        with open(os.path.join(VERIF, "out", "last_tlc_failure.log"), "w") as fp:
            fp.write(out)
    except OSError:
        pass
    lines = [ln for ln in out.splitlines() if ln.startswith("Error:") or "is violated" in ln or "Exception" in ln]
    return " | ".join(lines[:6]) or out[-600:]


def printed_json(out, tag="@@"):
    """
    Yield the JSON objects printed by  PrintT(tag \\o ToJson(x))  in a TLC run.
    TLC prints the string value with quotes and escapes.
    """
    for ln in out.splitlines():
        ln = ln.strip()
        if ln.startswith('"' + tag):
            try:
                s = json.loads(ln)
            except json.JSONDecodeError:
                # TLC escapes only \" and \\ ; try a manual unescape
                s = ln[1:-1].replace('\\"', '"').replace("\\\\", "\\")
            yield json.loads(s[len(tag):])


_COV = re.compile(r"^<(\w+) line (\d+), col (\d+) to line (\d+), col (\d+) of module (\w+)>: (\d+):(\d+)")


def parse_coverage(out):
    """action name -> (distinct states found by it, states generated by it)"""
    cov = {}
    for ln in out.splitlines():
        m = _COV.match(ln.strip())
        if m:
            name = m.group(1)
            a, b = int(m.group(7)), int(m.group(8))
            if name in cov:
                cov[name] = (cov[name][0] + a, cov[name][1] + b)
            else:
                cov[name] = (a, b)
    return cov


def sany(path):
    p = subprocess.run(["java", "-DTLA-Library=" + SPEC_DIR, "-cp", CP, "tla2sany.SANY", path], cwd=os.path.dirname(path),
                       stdout=subprocess.PIPE, stderr=subprocess.STDOUT, text=True)
    ok = p.returncode == 0 and "*** Errors" not in p.stdout and "Fatal" not in p.stdout and "Could not" not in p.stdout
    return ok, p.stdout


class DesignCheck:
    """
    Step (a) of the pipeline: TLC model-checks a hand-written exhaustive configuration of a specification
    (Spec => the property formulas) in a background thread while the harness exercises the real code.
    """

    def __init__(self, runs, workers=4, timeout=900):
        import threading

        self.runs = runs            # list of (root module in SPEC_DIR, cfg file name, label)
        self.results = {}
        self.threads = []
        for root, cfg, label in runs:
            t = threading.Thread(target=self._run, args=(root, cfg, label, workers, timeout), daemon=True)
            t.start()
            self.threads.append(t)

    def _run(self, root, cfg, label, workers, timeout):
        wd = Workdir(prefix="mc-")
        try:
            res = run_tlc(wd, root, os.path.join(SPEC_DIR, cfg), workers=workers, timeout=timeout, heap="6g")
            self.results[label] = res
        finally:
            wd.cleanup()

    def join(self, out):
        """adds the state counts to the outcome; raises TlcError if a model fails its own properties"""
        for t in self.threads:
            t.join()
        summary = {}
        for root, cfg, label in self.runs:
            res = self.results.get(label)
            if res is None or not tlc_ok(res):
                raise TlcError("design-level model check %s failed: %s" % (label, tlc_failed_how(res["out"]) if res else "no result"))
            st = parse_stats(res["out"])
            out.add_model(st)
            summary[label] = {"distinct_states": st["distinct"], "states_generated": st["generated"], "depth": st["depth"],
                              "wall_s": round(res["wall_s"], 1)}
        out.notes["design_level_model_checks"] = summary
