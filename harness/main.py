"""
./check <Cxx|setup|selftest|all> [--tier quick|thorough] [--replay path]
exit 0: property held on everything explored; 1: VIOLATION line(s) printed; 2: machinery failure
"""
import argparse
import importlib
import os
import sys
import traceback

CHECKS = {
    "C11": ("harness.checks.c11", "C11"),
    "C19": ("harness.checks.c19", "C19"),
    "C04": [("harness.checks.relayfam", "C04"), ("harness.checks.storefam", "C04")],
    "C16": ("harness.checks.c16", "C16"),
    "C15": ("harness.checks.authfam", "C15"),
    "C14": ("harness.checks.authfam", "C14"),
    "C07": ("harness.checks.kvfam", "C07"),
    "C10": ("harness.checks.kvfam", "C10"),
    "C03": [("harness.checks.storefam", "C03"), ("harness.checks.relayfam", "C03"), ("harness.checks.bulkload", "C03")],
    "C20": ("harness.checks.c20", "C20"),
    "C18": [("harness.checks.c18", "C18"), ("harness.checks.relayfam", "C18")],
    "C13": ("harness.checks.relayfam", "C13"),
    "C05": ("harness.checks.relayfam", "C05"),
    "C01": ("harness.checks.queryfam", "C01"),
    "C02": [("harness.checks.queryfam", "C02"), ("harness.checks.kvscan", "C02")],
    "C12": [("harness.checks.queryfam", "C12"), ("harness.checks.kvscan", "C12")],
    "C06": [("harness.checks.storefam", "C06"), ("harness.checks.relayfam", "C06")],
    "C08": [("harness.checks.storefam", "C08"), ("harness.checks.kvscan", "C08")],
    "C09": [("harness.checks.storefam", "C09"), ("harness.checks.kvscan", "C09")],
    "C17": ("harness.checks.storefam", "C17"),
}


def main(argv=None):
    ap = argparse.ArgumentParser()
    ap.add_argument("what")
    ap.add_argument("--tier", default=os.environ.get("VERIF_TIER", "quick"), choices=["quick", "thorough"])
    ap.add_argument("--replay")
    ap.add_argument("--backend")
    ap.add_argument("--universe")
    args = ap.parse_args(argv)
    seed = int(os.environ.get("VERIF_SEED", "0") or 0)
    if args.what == "setup":
        from . import setup

        return setup.main()
    if args.what == "selftest":
        from . import selftest

        return selftest.main(args.tier)
    if args.what not in CHECKS:
        print("unknown check %s" % args.what)
        return 2
    engines = CHECKS[args.what]
    if isinstance(engines, tuple):
        engines = [engines]
    try:
        if args.replay:
            from . import replay

            return replay.main(args.what, args.replay)
        kw = {}
        if args.backend:
            kw["backends"] = (args.backend,)
        if args.universe:
            kw["only_universe"] = args.universe
        outs = []
        for modname, prop in engines:
            mod = importlib.import_module(modname)
            outs.append(mod.run(prop, args.tier, seed, **kw))
        from .report import merge

        out = merge(outs)
        if args.what in ("C03",):
            out.level = "exploration"
        return out.finish()
    except Exception:
        traceback.print_exc()
        print("MACHINERY-FAILURE check=%s" % args.what)
        return 2


if __name__ == "__main__":
    sys.exit(main())
