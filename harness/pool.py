"""
Run many store scripts on the real code in parallel worker processes.
Workers are forked *before* nostr_relay.storage is imported; each loads the
harness configuration first (Config values are captured at import time).
"""
import asyncio
import multiprocessing
import os
import traceback

from . import common as C

_CTX = {}


def _init(config, quiet):
    C.load_config(**config)
    if quiet:
        import logging

        logging.disable(logging.CRITICAL)


async def _run_chunk(uni, backend, scripts, sync_writer, storage_options, reuse):
    from . import storedrv as D

    out = []
    opts = dict(storage_options)
    sql_file = opts.pop("_sql_file", False)        # SQLite on a file (a real connection pool) instead of :memory:
    keydump = None
    if opts.pop("_keydump", False):
        from .checks import kvfam

        keydump = kvfam._keydump(backend, uni)     # complete row / key dump after every step (line field _keys)
    for sc in scripts:
        with C.Scratch() as d:
            st = await D.open_storage(backend, d if backend == "lmdb" or sql_file else None, sync_writer=sync_writer, **opts)
            try:
                out.append(await D.run_script(st, backend, uni, sc, keydump=keydump))
            finally:
                await D.close_storage(st)
    return out


def _work(args):
    key, backend, scripts, sync_writer, storage_options = args
    uni = _CTX[key]
    try:
        return ("ok", asyncio.run(_run_chunk(uni, backend, scripts, sync_writer, storage_options, False)))
    except Exception:
        return ("err", traceback.format_exc())


def run_scripts(uni, backend, scripts, config=None, jobs=None, chunk=25, sync_writer=True, storage_options=None, quiet=True):
    """returns traces in the order of scripts"""
    jobs = jobs or min(16, os.cpu_count() or 4)
    key = id(uni)
    _CTX[key] = uni
    tasks = []
    for b in range(0, len(scripts), chunk):
        tasks.append((key, backend, scripts[b:b + chunk], sync_writer, tuple((storage_options or {}).items())))
    ctx = multiprocessing.get_context("fork")
    try:
        with ctx.Pool(min(jobs, max(1, len(tasks))), initializer=_init, initargs=(config or {}, quiet)) as pool:
            results = pool.map(_work, tasks, chunksize=1)
    finally:
        _CTX.pop(key, None)
    traces = []
    for status, payload in results:
        if status != "ok":
            raise RuntimeError("worker failed:\n" + payload)
        traces.extend(payload)
    return traces


def run_many(jobs_spec, config=None, jobs=None, chunk=20, quiet=True):
    """
    jobs_spec: list of dicts {uni, backend, scripts, sync_writer?, storage_options?}
    One worker pool for all of them.  Returns a list of trace lists, one per job.
    """
    jobs = jobs or min(16, os.cpu_count() or 4)
    tasks = []
    owner = []
    for n, js in enumerate(jobs_spec):
        key = ("job", n)
        _CTX[key] = js["uni"]
        sc = js["scripts"]
        for b in range(0, len(sc), chunk):
            tasks.append((key, js["backend"], sc[b:b + chunk], js.get("sync_writer", True),
                          tuple((js.get("storage_options") or {}).items())))
            owner.append(n)
    ctx = multiprocessing.get_context("fork")
    try:
        if tasks:
            with ctx.Pool(min(jobs, len(tasks)), initializer=_init, initargs=(config or {}, quiet)) as pool:
                results = pool.map(_work, tasks, chunksize=1)
        else:
            results = []
    finally:
        for n in range(len(jobs_spec)):
            _CTX.pop(("job", n), None)
    out = [[] for _ in jobs_spec]
    for n, (status, payload) in zip(owner, results):
        if status != "ok":
            raise RuntimeError("worker failed:\n" + payload)
        out[n].extend(payload)
    return out


def _call(args):
    modname, fname, payload = args
    import importlib

    try:
        fn = getattr(importlib.import_module(modname), fname)
        return ("ok", fn(payload))
    except Exception:
        return ("err", traceback.format_exc())


def map_in_workers(modname, fname, payloads, config=None, jobs=None, quiet=True, shared=None):
    """
    Generic: run  module.fname(payload)  for every payload in forked workers that loaded `config` first.
    `shared` (dict) is stored in pool._CTX before the fork so that workers can read big objects without pickling.
    """
    jobs = jobs or min(16, os.cpu_count() or 4)
    if shared:
        _CTX.update(shared)
    ctx = multiprocessing.get_context("fork")
    try:
        if not payloads:
            return []
        with ctx.Pool(min(jobs, len(payloads)), initializer=_init, initargs=(config or {}, quiet)) as pool:
            results = pool.map(_call, [(modname, fname, p) for p in payloads], chunksize=1)
    finally:
        for k in (shared or {}):
            _CTX.pop(k, None)
    out = []
    for status, payload in results:
        if status != "ok":
            raise RuntimeError("worker failed:\n" + payload)
        out.append(payload)
    return out
