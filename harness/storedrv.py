"""
Sequential driver of the real storage classes: runs a script of abstract
operations against DBStorage (SQLite) or LMDBStorage (real liblmdb through the
shim) and records one trace line per operation with the complete projected
state after it.  The verdict on the trace is TLC's (Store_Trace.tla).

Script operations (tuples):
    ("submit", sym)          storage.add_event(concrete event)
    ("service", sym)         storage.add_service_event(content, kind, tags, created_at of the described event): signed by the relay
    ("writer",)              one transaction of the LMDB writer (no-op line on SQL is not emitted)
    ("drain",)               writer steps until the queue is empty (one Writer line each)
    ("gc", T)                one garbage-collection pass with the clock at T0+T; ("gc", T, "busy"): while a stored query of
                             another client is being streamed (SQL: its connection stays checked out of the pool)
    ("delete", sym)          storage.delete_event(id)
    ("get", sym)             storage.get_event(id)
    ("http", sym)            GET /e/<id> through web.create_app(storage); ("http", sym, "upper"): the id in upper-case hex
    ("query", [absfilter])   a REQ's stored answer through storage.subscribe(...)
    ("squery", [absfilter])  storage.run_single_query(filters)
    ("fquery", [absfilter], k)     the stored answer while the engine fails at the k-th fetch of rows (SQL)
    ("wsquery", [absfilter], sid)  the REQ sent through web.start_client on one long-lived connection (sub ids re-used)
"""
import asyncio
import logging
import os

from . import common as C


class GatedQueue:
    """
    Replacement for WriterThread.queue (a queue.Queue): hands out tasks only when the driver allows it.  One unit of
    budget is one task; when the budget is used up a blocking get() returns the writer's stop marker (None) and a
    non-blocking one raises queue.Empty, so that whatever shape the writer's loop has, it applies `budget` tasks and returns.
    """

    def __init__(self):
        self.items = []
        self.budget = 0

    def put(self, item, block=True, timeout=None):
        self.items.append(item)

    put_nowait = put

    def _take(self):
        if self.budget > 0 and self.items:
            self.budget -= 1
            return True, self.items.pop(0)
        return False, None

    def get(self, block=True, timeout=None):
        ok, item = self._take()
        if ok:
            return item
        if not block or timeout is not None:
            import queue

            raise queue.Empty()
        return None  # WriterThread.run() leaves its loop on None

    def get_nowait(self):
        return self.get(block=False)

    def task_done(self):
        pass

    def join(self):
        pass

    def qsize(self):
        return len(self.items)

    def empty(self):
        return not self.items

    def full(self):
        return False


class Recorder:
    """wraps storage.notify_all_connected to see which events are handed to the fan-out"""

    def __init__(self, storage):
        self.ids = []
        self.events = []
        self._orig = storage.notify_all_connected
        storage.notify_all_connected = self._wrapped

    async def _wrapped(self, event):
        self.ids.append(event.id)
        self.events.append(event)
        return await self._orig(event)

    def take_events(self):
        out, self.events = self.events, []
        self.ids = []
        return out

    def take(self):
        out, self.ids = self.ids, []
        return out


async def open_storage(backend, path=None, sync_writer=True, **options):
    if backend == "sql":
        url = "sqlite+aiosqlite:///:memory:" if path is None else "sqlite+aiosqlite:///" + os.path.join(path, "db.sqlite3")
        st = await C.make_sql_storage(url, **options)
        st._verif_gate = None
    else:
        st = await C.make_lmdb_storage(path, **options)
        st._verif_gate = None
        if sync_writer:
            from nostr_relay.storage import kv

            st.writer_queue.put(None)
            st.writer_thread.join()
            wt = kv.WriterThread(st.db, st.stat_collector)
            gate = GatedQueue()
            wt.queue = gate
            st.writer_thread = wt
            st.writer_queue = gate
            st._verif_gate = gate
    return st


async def close_storage(st):
    gate = getattr(st, "_verif_gate", None)
    if gate is not None:
        # the writer object was never started as a thread
        if st.garbage_collector_task:
            st.garbage_collector_task.cancel()
        st.query_pool.shutdown()
        st.db.close()
        st.db = None
    else:
        await st.close()
    from nostr_relay.util import Periodic

    Periodic.cancel_running()


def writer_step(st, n=1):
    """run n queued writer operations synchronously through the real WriterThread.run body"""
    gate = st._verif_gate
    gate.budget = n
    st.writer_thread.run()
    gate.budget = 0


def wq_abstract(st, uni):
    gate = getattr(st, "_verif_gate", None)
    if gate is None:
        return []
    out = []
    for task in gate.items:
        if task is None:
            continue
        op, args = task
        if op == "add":
            out.append(["add", uni.sym_event(args[0]) or "?" + args[0].id[:16]])
        elif op == "del":
            out.append(["del", uni.sym_id(args[0])])
        else:
            out.append([op, "?"])
    return out


async def dump_ids(st, backend, uni):
    """the stored events as universe symbols; an event is recognised by equality in all seven fields"""
    out = set()
    if backend == "sql":
        import sqlalchemy as sa
        from nostr_relay.storage.db import event_from_tuple

        async with st.db.connect() as conn:
            rows = (await conn.execute(sa.text("SELECT id, created_at, kind, pubkey, tags, sig, content FROM events"))).fetchall()
        for r in rows:
            try:
                sym = uni.sym_event(event_from_tuple(r))
            except Exception:
                sym = None
            out.add(sym if sym is not None else "?" + r[0].hex()[:16])
    else:
        from nostr_relay.storage import kv

        for k, v in C.lmdb_dump_keys(st):
            if k[:1] == b"\x00" and len(k) == 33:
                try:
                    sym = uni.sym_event(kv.decode_event(kv.unpackb(v, use_list=False)))
                except Exception:
                    sym = None
                out.add(sym if sym is not None else "?" + k[1:].hex()[:16])
    return out


def sql_skeleton(text):
    """statement text with every literal replaced by a placeholder and placeholder lists collapsed"""
    import re

    out = []
    i, n = 0, len(text)
    while i < n:
        ch = text[i]
        if ch.isspace():
            i += 1
        elif ch == "'" or (ch in "xX" and i + 1 < n and text[i + 1] == "'"):
            i += 1 if ch == "'" else 2
            while i < n:
                if text[i] == "'":
                    if i + 1 < n and text[i + 1] == "'":
                        i += 2
                        continue
                    break
                i += 1
            i += 1
            out.append("?")
        elif ch.isdigit():
            while i < n and (text[i].isalnum() or text[i] == "."):
                i += 1
            out.append("?")
        elif ch.isalpha() or ch == "_":
            j = i
            while j < n and (text[j].isalnum() or text[j] in "_."):
                j += 1
            out.append(text[i:j].upper())
            i = j
        elif ch == "-" and text[i:i + 2] == "--":
            out.append("--COMMENT")
            while i < n and text[i] != "\n":
                i += 1
        else:
            out.append(ch)
            i += 1
    sk = " ".join(out)
    return re.sub(r"\?( , \?)+", "?*", sk).replace("( ? )", "( ?* )")


def py_skeleton(source):
    """generated Python source with every constant replaced by its type name"""
    import ast

    try:
        tree = ast.parse(source)
    except SyntaxError:
        return "SYNTAX-ERROR"
    for node in ast.walk(tree):
        if isinstance(node, ast.Constant):
            node.value = type(node.value).__name__
        elif isinstance(node, ast.BoolOp):
            pass
        elif isinstance(node, (ast.Tuple, ast.List, ast.Set)) and all(isinstance(e, ast.Constant) for e in node.elts):
            node.elts = node.elts[:1]
    # the clauses of the generated predicate come out of a set: order them
    for node in ast.walk(tree):
        if isinstance(node, ast.BoolOp):
            node.values = sorted(node.values, key=ast.dump)
    return ast.dump(tree)


class StatementSpy:
    """records the statements / generated code the storage engine is given while a REQ is answered (harness-side)"""

    def __init__(self, st, backend):
        self.st = st
        self.backend = backend
        self.seen = []

    def __enter__(self):
        if self.backend == "sql":
            import sqlalchemy as sa

            self._fn = lambda conn, cursor, statement, parameters, context, executemany: self.seen.append(sql_skeleton(statement)) \
                if statement.lstrip().upper().startswith("SELECT ID, CREATED_AT") else None
            sa.event.listen(self.st.db.sync_engine, "before_cursor_execute", self._fn)
        else:
            from nostr_relay.storage import kv

            spy = self

            def compile_(source, *a, **k):
                if isinstance(source, str) and "def check(et)" in source:
                    spy.seen.append(py_skeleton(source))
                return compile(source, *a, **k)

            kv.compile = compile_
            kv.compile_match_from_query.cache_clear()
        return self

    def __exit__(self, *a):
        if self.backend == "sql":
            import sqlalchemy as sa

            sa.event.remove(self.st.db.sync_engine, "before_cursor_execute", self._fn)
        else:
            from nostr_relay.storage import kv

            if "compile" in kv.__dict__:
                del kv.compile


async def stored_answer(st, conc_filters, timeout=20):
    """the stored phase of a REQ: subscribe, collect until EOSE, unsubscribe"""
    from nostr_relay.util import ClientID

    q = asyncio.Queue()
    cid = ClientID("verif")
    out = []
    err = None
    try:
        await st.subscribe(cid, "q", [dict(f) if isinstance(f, dict) else f for f in conc_filters], q)
        while True:
            sub_id, ev = await asyncio.wait_for(q.get(), timeout)
            if ev is None:
                break
            out.append(ev)
    except asyncio.TimeoutError:
        err = "timeout"
    except Exception as e:  # refusals (StorageError / AuthenticationError)
        err = "%s: %s" % (type(e).__name__, e)
    finally:
        await st.unsubscribe(cid, "q")
        await st.unsubscribe(cid)
    return out, err


def set_clock(backend, T):
    """point the garbage collectors' clock (module-level name `time`) at T0+T"""
    import nostr_relay.storage.db as db

    fixed = lambda: float(C.T0 + T)  # noqa: E731
    db.time = fixed
    try:
        import nostr_relay.storage.kv as kv

        kv.time = fixed
    except Exception:
        pass


async def run_gc(st, backend):
    """one pass of the storage's collector; like start_garbage_collector, one collector object lives as long as the storage"""
    gc = getattr(st, "_verif_gc", None)
    if gc is None:
        if backend == "sql":
            from nostr_relay.storage.db import QueryGarbageCollector

            gc = QueryGarbageCollector(st)
        else:
            from nostr_relay.storage.kv import KVGarbageCollector

            gc = KVGarbageCollector(st)
        st._verif_gc = gc
    await gc.run_once()


spy_skeletons = False


async def run_script(st, backend, uni, script, log_errors=None, keydump=None):
    """returns the list of trace lines (python dicts, abstract); keydump(st) -> complete abstract key dump, stored as _keys"""
    rec = Recorder(st)
    lines = []
    for op in script:
        if keydump is not None and lines and "post" in lines[-1] and "_keys" not in lines[-1]:
            lines[-1]["_keys"] = await keydump(st)
        kind = op[0]
        if kind == "submit":
            sym = op[1]
            ev = uni.conc[sym]
            try:
                _, changed = await st.add_event(_clone(ev))
                ok = bool(changed)
                reason = ""
            except Exception as e:
                ok = False
                reason = "%s: %s" % (type(e).__name__, e)
                if log_errors is not None:
                    log_errors.append((sym, reason))
            lines.append({"a": "Submit", "id": sym, "ok": ok, "post": await dump_ids(st, backend, uni),
                          "q": wq_abstract(st, uni), "bc": [uni.sym_event(e) or "?" + e.id[:16] for e in rec.take_events()], "_reason": reason})
        elif kind == "service":
            # an internal service event: the relay builds and signs it itself (BaseStorage.add_service_event) from the content,
            # kind, tags and timestamp of the universe's description and pushes it through add_event.  What it built is judged by
            # the authenticity oracle (auth_obs) and, if it is the described event, takes the description's place in the universe
            # (the relay's own signature included) so that dumps, look-ups and answers are projected against it.
            sym = op[1]
            ref = uni.conc[sym]
            built = None
            try:
                ev_obj = await st.add_service_event(content=ref["content"], kind=ref["kind"], tags=_clone(ref["tags"]), created_at=ref["created_at"])
                built = ev_obj.to_json_object() if hasattr(ev_obj, "to_json_object") else dict(ev_obj)
                ok, reason = True, ""
            except Exception as e:
                ok, reason = False, "%s: %s" % (type(e).__name__, e)
            auth_obs = True
            if built is not None:
                auth_obs = bool(C.is_authentic(built))
                if all(built.get(k) == ref[k] for k in ("id", "pubkey", "created_at", "kind", "content")) and C._dump(built.get("tags")) == C._dump(ref["tags"]):
                    uni.conc[sym] = built
            lines.append({"a": "Submit", "id": sym, "ok": ok, "post": await dump_ids(st, backend, uni), "q": wq_abstract(st, uni),
                          "bc": [uni.sym_event(e) or "?" + e.id[:16] for e in rec.take_events()], "auth_obs": auth_obs, "_reason": reason,
                          "_service": True})
        elif kind == "writer":
            if backend == "lmdb" and st._verif_gate.items:
                writer_step(st, 1)
                lines.append({"a": "Writer", "post": await dump_ids(st, backend, uni), "q": wq_abstract(st, uni), "bc": []})
        elif kind == "drain":
            while backend == "lmdb" and st._verif_gate.items:
                writer_step(st, 1)
                lines.append({"a": "Writer", "post": await dump_ids(st, backend, uni), "q": wq_abstract(st, uni), "bc": []})
        elif kind == "gc":
            set_clock(backend, op[1])
            held = None
            if len(op) > 2 and op[2] == "busy" and backend == "sql":
                # another client's stored query is being streamed while the pass runs: its connection stays checked out of
                # the pool, so the collector works on another one
                import sqlalchemy as sa

                held = st.run_query(sa.text("SELECT id, created_at, kind, pubkey, tags, sig, content FROM events"))
                try:
                    await held.__anext__()
                except StopAsyncIteration:
                    held = None
            try:
                await run_gc(st, backend)
            finally:
                if held is not None:
                    # the slow reader gets the rest of its answer afterwards (the stream ends normally)
                    async for _ in held:
                        pass
            lines.append({"a": "Gc", "T": op[1], "post": await dump_ids(st, backend, uni), "q": wq_abstract(st, uni), "bc": []})
        elif kind == "delete":
            await st.delete_event(uni.conc_value(op[1]))
            lines.append({"a": "Delete", "id": op[1], "post": await dump_ids(st, backend, uni), "q": wq_abstract(st, uni), "bc": []})
        elif kind == "get":
            try:
                ev = await st.get_event(_spell(uni.conc_value(op[1]), op))
            except Exception:
                ev = None
            lines.append({"a": "Get", "via": "store", "id": op[1], "found": bool(ev is not None), "got": _got(uni, ev), "_spelling": op[2:]})
        elif kind == "http":
            # the same look-up through the web application: GET /e/<id> (falcon ASGI app built by web.create_app)
            status, ctype, body = await http_get(st, "/e/" + _spell(uni.conc_value(op[1]), op))
            ev = None
            if status == 200:
                try:
                    ev = C.strict_json(body.decode("utf-8"))
                    if not isinstance(ev, dict):
                        ev = {"id": "?"}
                except Exception:
                    ev = {"id": "?"}
            lines.append({"a": "Get", "via": "http", "id": op[1], "found": status == 200, "got": _got(uni, ev), "_status": status,
                          "_ctype": ctype, "_spelling": op[2:]})
        elif kind == "wsquery":
            # the same REQ through the connection handler (web.start_client) of one long-lived connection of this script: the
            # frames between the REQ and its EOSE are the answer.  op = ("wsquery", abstract filters, subscription id): ids are
            # re-used without CLOSE, so most REQs replace a subscription that has already been answered.
            fs, sid = op[1], (op[2] if len(op) > 2 else "feed")
            ws = getattr(st, "_verif_ws", None)
            if ws is None:
                ws = st._verif_ws = WsConn(st)
                await ws.start()
            conc = [uni.conc_filter(f) for f in fs]
            frames, err = await ws.req(sid, conc)
            res = []
            for fr in frames:
                if fr[0] == "EVENT" and len(fr) == 3 and fr[1] == sid and isinstance(fr[2], dict):
                    sym = uni.sym_event(fr[2])
                    res.append(sym if sym is not None else "?" + str(fr[2].get("id"))[:16])
                else:
                    res.append("?frame:" + str(fr)[:24])
            lines.append({"a": "Query", "fs": fs, "res": res, "_err": err, "_path": "ws", "_raw": False, "_skel": None, "_conc": None, "_sid": sid})
        elif kind == "fquery":
            # a REQ's stored answer during which the engine fails transiently: the fetch after k delivered rows raises "database is locked"
            # (SQL: aiosqlite's cursor; on LMDB the query runs undisturbed)
            fs, k = op[1], op[2]
            conc = [uni.conc_filter(f) for f in fs]
            if backend == "sql":
                import sqlite3

                import aiosqlite

                count = [0]
                fired = []
                saved = {}

                def faulty(name):
                    orig = getattr(aiosqlite.Cursor, name)
                    saved[name] = orig

                    async def fn(self_, *a, **kw):
                        # the fetch that follows the delivery of at least k event rows fails (once)
                        if count[0] >= k and not fired:
                            fired.append(1)
                            raise sqlite3.OperationalError("database is locked")
                        rows = await orig(self_, *a, **kw)
                        got = [rows] if name == "fetchone" and rows is not None else (rows or []) if name != "fetchone" else []
                        count[0] += sum(1 for r in got if len(r) == 7)
                        return rows
                    return fn
                for name in ("fetchmany", "fetchone", "fetchall"):
                    setattr(aiosqlite.Cursor, name, faulty(name))
                try:
                    evs, err = await stored_answer(st, _clone(conc))
                finally:
                    for name, orig in saved.items():
                        setattr(aiosqlite.Cursor, name, orig)
            else:
                evs, err = await stored_answer(st, _clone(conc))
            res = []
            for e in evs:
                s_ = uni.sym_event(e)
                res.append(s_ if s_ is not None else "?" + str(getattr(e, "id", e))[:16])
            ln = {"a": "Query", "fs": fs, "res": res, "_err": err, "_path": "fquery", "_raw": False, "_skel": None, "_conc": None}
            if backend == "sql":
                ln["fault"] = k
            lines.append(ln)
        elif kind in ("query", "squery", "rawquery"):
            fs = op[1]
            if kind == "rawquery":
                # concrete (possibly malformed) filters given verbatim, with the abstract filters that bound the answer
                conc, fs = op[1], op[2]
                kind = "query"
            else:
                conc = [uni.conc_filter(f) for f in fs]
            skel = None
            if kind == "query" and (spy_skeletons or os.environ.get("VERIF_SPY_SKELETONS") == "1"):
                with StatementSpy(st, backend) as spy:
                    evs, err = await stored_answer(st, _clone(conc))
                skel = " || ".join(spy.seen)
            elif kind == "query":
                evs, err = await stored_answer(st, _clone(conc))
            else:
                evs, err = [], None
                try:
                    async for e in st.run_single_query([dict(f) for f in conc]):
                        evs.append(e)
                except Exception as e:
                    err = "%s: %s" % (type(e).__name__, e)
            res = []
            for e in evs:
                s = uni.sym_event(e)
                res.append(s if s is not None else "?" + str(getattr(e, "id", e))[:16])
            lines.append({"a": "Query", "fs": fs, "res": res, "_err": err, "_path": kind, "_raw": op[0] == "rawquery", "_skel": skel,
                          "_conc": conc if op[0] == "rawquery" else None})
        else:
            raise ValueError(op)
    if keydump is not None and lines and "post" in lines[-1] and "_keys" not in lines[-1]:
        lines[-1]["_keys"] = await keydump(st)
    if getattr(st, "_verif_ws", None) is not None:
        await st._verif_ws.stop()
        st._verif_ws = None
    return lines


def _spell(hexid, op):
    """the id as the client spells it: a third item "upper" asks for upper-case hex digits (the same 32 bytes)"""
    return hexid.upper() if len(op) > 2 and op[2] == "upper" and isinstance(hexid, str) else hexid


def _got(uni, ev):
    """projection of a look-up's answer: the symbol of the accepted event it equals in all seven fields, "none", or "?..." """
    if ev is None:
        return "none"
    sym = uni.sym_event(ev)
    if sym is not None:
        return sym
    return "?" + str(ev.get("id") if isinstance(ev, dict) else getattr(ev, "id", ev))[:16]


async def http_get(st, path, headers=None):
    """one HTTP GET against the relay's ASGI application (no lifespan events: the storage is already set up)"""
    from falcon import testing

    app = getattr(st, "_verif_app", None)
    if app is None:
        from nostr_relay import web

        app = web.create_app(storage=st)
        logging.disable(logging.CRITICAL)
        st._verif_app = app
    scope = testing.create_scope(path=path, headers=headers)
    collector = testing.ASGIResponseEventCollector()
    await app(scope, testing.ASGIRequestEventEmitter(), collector)
    ctype = ""
    for k, v in collector.headers or []:
        if k.lower() == "content-type":
            ctype = v
    return collector.status, ctype, b"".join(collector.body_chunks)


class WsConn:
    """one connection of web.start_client over the script's storage, fed by hand"""

    def __init__(self, st):
        self.st = st
        self.inbox = asyncio.Queue()
        self.frames = []
        self.cond = asyncio.Condition()
        self.task = None

    async def start(self):
        import json

        from nostr_relay import web
        from nostr_relay.rate_limiter import NullRateLimiter

        async def recv():
            x = await self.inbox.get()
            if x is None:
                import falcon

                raise falcon.WebSocketDisconnected()
            return x

        async def send(text):
            async with self.cond:
                self.frames.append(json.loads(text))
                self.cond.notify_all()

        async def close(code=1000):
            pass

        class _Q:
            def __getattr__(self, name):
                return lambda *a, **k: None

        self.task = asyncio.create_task(web.start_client(self.st, send, recv, close, _Q(), rate_limiter=NullRateLimiter(), remote_addr="10.9.9.9"))

    async def req(self, sid, conc, timeout=20):
        import json

        start = len(self.frames)
        await self.inbox.put(json.dumps(["REQ", sid] + conc, ensure_ascii=False))

        def done():
            return any(f[0] == "EOSE" and f[1:2] == [sid] or f[0] == "NOTICE" for f in self.frames[start:])
        err = None
        try:
            async with self.cond:
                await asyncio.wait_for(self.cond.wait_for(done), timeout)
        except asyncio.TimeoutError:
            err = "timeout"
        out = []
        for f in self.frames[start:]:
            if f[0] == "EOSE" and f[1:2] == [sid]:
                break
            if f[0] == "NOTICE":
                err = "NOTICE: %s" % (f[1:],)
                break
            out.append(f)
        return out, err

    async def stop(self):
        if self.task is not None:
            await self.inbox.put(None)
            try:
                await asyncio.wait_for(self.task, 5)
            except Exception:
                self.task.cancel()


def _clone(ev):
    import copy

    return copy.deepcopy(ev)


def quiet():
    logging.disable(logging.CRITICAL)
