"""
./check <Cxx> --replay <path>: show a recorded violation and, where the replay file carries a complete stimulus
(store-level scripts), run it again on the current tree and have TLC judge the new trace.
exit 0: the violation does not reproduce; 1: it does (VIOLATION line printed); 2: the file cannot be replayed.
"""
import json
import sys


class _UniFromFile:
    """the part of harness.universe.Universe that trace validation needs, rebuilt from a replay file"""

    def __init__(self, data):
        self.order = list(data)
        self.abs = {s: v["abstract"] for s, v in data.items()}
        self.conc = {s: v["concrete"] for s, v in data.items()}
        self.sym_of_id = {v["concrete"]["id"]: s for s, v in data.items()}
        self.authors = ("A", "B", "C", "D", "S")
        self.symtab = {}

    def tla_universe(self):
        return {s: self.abs[s] for s in self.order}

    def one_char_names(self):
        names = set()
        for s in self.order:
            for at, ct in zip(self.abs[s]["tags"], self.conc[s]["tags"]):
                if ct and isinstance(ct[0], str) and len(ct[0]) == 1:
                    names.add(at[0])
        return names

    def sym_id(self, hexid):
        return self.sym_of_id.get(hexid, "?" + str(hexid)[:16])

    def conc_value(self, sym, name=None):
        if sym in self.conc:
            return self.conc[sym]["id"]
        return sym

    def conc_filter(self, f):
        from . import common as C

        out = {}
        for k in ("ids", "authors"):
            if k in f:
                out[k] = [self.conc[s]["id"] if s in self.conc else (C.pubkey(s) if s in self.authors else s) for s in f[k]]
        if "kinds" in f:
            out["kinds"] = list(f["kinds"])
        for name, vals in f.get("tags", {}).items():
            out["#" + name] = [self.conc_value(v) for v in vals]
        for k in ("since", "until"):
            if k in f:
                out[k] = C.T0 + f[k]
        if "limit" in f:
            out["limit"] = f["limit"]
        return out

    def sym_event(self, ev):
        if not isinstance(ev, dict):
            ev = {"id": ev.id, "pubkey": ev.pubkey, "created_at": ev.created_at, "kind": ev.kind, "tags": [list(t) for t in ev.tags],
                  "content": ev.content, "sig": ev.sig}
        s = self.sym_of_id.get(ev.get("id"))
        if s is None:
            return None
        ref = self.conc[s]
        return s if all(ev.get(k) == ref[k] for k in ("id", "pubkey", "created_at", "kind", "content", "sig")) and \
            [list(t) for t in ev.get("tags", [])] == ref["tags"] else None


def main(prop, path):
    try:
        with open(path) as fp:
            data = json.load(fp)
    except Exception as e:
        print("cannot read replay file: %s" % e)
        return 2
    meta = data.get("meta", {})
    print("replay of %s: %s" % (prop, json.dumps(meta)[:600]))
    print("recorded verdict: %s" % json.dumps(data.get("verdict"))[:600])
    script = meta.get("script")
    if "universe" in data and script and meta.get("backend") and all(op[0] in ("submit", "drain", "writer", "gc", "get", "http", "delete", "query") for op in script):
        from . import pool, trace

        uni = _UniFromFile(data["universe"])
        sc = [tuple(op) for op in script]
        traces = pool.run_scripts(uni, meta["backend"], [sc], jobs=1)
        verdicts, _ = trace.validate_store_traces(uni, meta["backend"], traces)
        mine = [b for b in verdicts[0] if b[0].startswith(prop + "_") or b[0] in ("Conform", "Garbage")]
        for ln in traces[0]:
            print("   ", {k: (sorted(v) if isinstance(v, set) else v) for k, v in ln.items()})
        print("verdict on the current tree: %s" % (mine or "accepted"))
        if mine:
            print("VIOLATION property=%s replay=%s" % (prop, path))
            return 1
        return 0
    for key in ("trace", "log", "dumps", "examples"):
        if key in data:
            print("%s:" % key)
            for ln in data[key][:80]:
                print("   ", json.dumps(ln, default=str)[:400])
    print("(this replay file records an execution; re-run ./check %s to re-execute its family of stimuli)" % prop)
    return 1 if data.get("verdict") else 0


if __name__ == "__main__":
    sys.exit(main(sys.argv[1], sys.argv[2]))
