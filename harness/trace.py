"""
Batch validation of recorded traces by TLC (Store_Trace.tla and friends).
"""
import concurrent.futures
import json
import os

from . import tlc
from .universe import abs_filter_tla

STORE_VARS = ["store", "wq", "bcast", "last", "tid", "l", "bad"]


def _strip(line):
    """drop harness-private fields (leading underscore) and encode filters"""
    out = {}
    for k, v in line.items():
        if k.startswith("_"):
            continue
        if k == "fs":
            v = [abs_filter_tla(f) for f in v]
        out[k] = v
    return out


def store_trace_module(name, uni, backend, traces, max_limit=600000, policy_refused=()):
    consts = {
        "Universe": uni.tla_universe(),
        "OneCharNames": set(uni.one_char_names()),
        "Backend": backend,
        "PolicyRefused": set(policy_refused),
        "MaxLimit": max_limit,
        "Traces": [[_strip(ln) for ln in tr] for tr in traces],
    }
    return tlc.mc_module(name, "Store_Trace", STORE_VARS, consts, extends=("Integers", "Sequences", "FiniteSets", "TLC"))


TRACE_CFG = "SPECIFICATION TraceSpec\nCHECK_DEADLOCK FALSE\n"


def _run_batch(args):
    text, nbatch, ntraces, timeout = args
    with tlc.Workdir(prefix="trace-") as wd:
        name = "MCT_%d" % nbatch
        wd.write(name + ".tla", text.replace("@@MODNAME@@", name))
        cfg = wd.write(name + ".cfg", TRACE_CFG)
        res = tlc.run_tlc(wd, name, cfg, workers=1, timeout=timeout, heap="3g")
    verdicts = {}
    for obj in tlc.printed_json(res["out"]):
        verdicts[obj["tid"]] = obj
    stats = tlc.parse_stats(res["out"])
    ok = res["rc"] == 0 and stats is not None and len(verdicts) == ntraces
    return {"ok": ok, "verdicts": verdicts, "stats": stats, "out": res["out"] if not ok else "", "wall_s": res["wall_s"]}


def validate_store_traces(uni, backend, traces, max_limit=600000, policy_refused=(), batch=400, jobs=None, timeout=1200):
    """
    traces: list of traces (lists of line dicts).  Empty traces are skipped.
    Returns (verdicts, stats): verdicts[k] = list of [name, line] for trace k ([] = accepted).
    Raises TlcError on machinery failure.
    """
    idx = [k for k, tr in enumerate(traces) if tr]
    batches = []
    for b in range(0, len(idx), batch):
        chunk = idx[b:b + batch]
        text = store_trace_module("@@MODNAME@@", uni, backend, [traces[k] for k in chunk], max_limit, policy_refused)
        batches.append((chunk, (text, len(batches), len(chunk), timeout)))
    jobs = jobs or min(16, max(1, len(batches)))
    verdicts = {k: [] for k in range(len(traces))}
    total = {"generated": 0, "distinct": 0, "batches": len(batches), "wall_s": 0.0}
    with concurrent.futures.ThreadPoolExecutor(max_workers=jobs) as ex:
        results = list(ex.map(_run_batch, [b[1] for b in batches]))
    for (chunk, _), res in zip(batches, results):
        if not res["ok"]:
            raise tlc.TlcError("trace validation failed to run: " + tlc.tlc_failed_how(res["out"]))
        total["generated"] += res["stats"]["generated"]
        total["distinct"] += res["stats"]["distinct"]
        total["wall_s"] += res["wall_s"]
        for pos, k in enumerate(chunk):
            v = res["verdicts"][pos + 1]
            verdicts[k] = sorted([list(x) for x in v["bad"]], key=lambda x: (x[1], x[0]))
    return verdicts, total


def dump_replay(path, meta, uni, trace, verdict):
    """write a self-contained replay file for a violating trace"""
    os.makedirs(os.path.dirname(path), exist_ok=True)
    with open(path, "w") as fp:
        json.dump({"meta": meta, "verdict": verdict,
                   "universe": {s: {"abstract": uni.abs[s], "concrete": uni.conc[s]} for s in uni.order},
                   "trace": [{k: (sorted(v) if isinstance(v, (set, frozenset)) else v) for k, v in ln.items()} for ln in trace]},
                  fp, indent=1, default=lambda o: sorted(o) if isinstance(o, (set, frozenset)) else str(o))


def validate_many(jobs_spec, batch=250, jobs=16, timeout=1200):
    """
    jobs_spec: list of dicts {uni, backend, traces, max_limit?, policy_refused?}
    Returns list of (verdicts, stats) per job; all TLC batches share one pool.
    """
    all_batches = []
    for n, js in enumerate(jobs_spec):
        traces = js["traces"]
        idx = [k for k, tr in enumerate(traces) if tr]
        for b in range(0, len(idx), batch):
            chunk = idx[b:b + batch]
            text = store_trace_module("@@MODNAME@@", js["uni"], js["backend"], [traces[k] for k in chunk],
                                      js.get("max_limit", 600000), js.get("policy_refused", ()))
            all_batches.append((n, chunk, (text, len(all_batches), len(chunk), timeout)))
    with concurrent.futures.ThreadPoolExecutor(max_workers=max(1, min(jobs, len(all_batches) or 1))) as ex:
        results = list(ex.map(_run_batch, [b[2] for b in all_batches]))
    out = []
    for js in jobs_spec:
        out.append(({k: [] for k in range(len(js["traces"]))}, {"generated": 0, "distinct": 0, "batches": 0, "wall_s": 0.0}))
    for (n, chunk, _), res in zip(all_batches, results):
        if not res["ok"]:
            raise tlc.TlcError("trace validation failed to run: " + tlc.tlc_failed_how(res["out"]))
        verdicts, total = out[n]
        total["generated"] += res["stats"]["generated"]
        total["distinct"] += res["stats"]["distinct"]
        total["batches"] += 1
        total["wall_s"] += res["wall_s"]
        for pos, k in enumerate(chunk):
            v = res["verdicts"][pos + 1]
            verdicts[k] = sorted([list(x) for x in v["bad"]], key=lambda x: (x[1], x[0]))
    return out
