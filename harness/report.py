"""
Check results -> evidence file, VIOLATION / KNOWN-FINDING lines, exit code.
Known findings are read from /verif/known_findings.json (never written at run time).
"""
import json
import os
import sys
import time

from .common import VERIF

# (seedtest.sh points this elsewhere so that runs against a seeded scratch tree never overwrite the committed evidence)
EVIDENCE_DIR = os.environ.get("VERIF_EVIDENCE_DIR") or os.path.join(VERIF, "evidence")
REPLAY_DIR = os.path.join(VERIF, "out", "replay")
KNOWN_PATH = os.path.join(VERIF, "known_findings.json")


def load_known(prop):
    try:
        with open(KNOWN_PATH) as fp:
            data = json.load(fp)
    except FileNotFoundError:
        return []
    return [f for f in data.get("findings", []) if f.get("property") == prop and f.get("status") == "open"]


class Outcome:
    """accumulates what a check run covered and found"""

    def __init__(self, prop, tier, seed, level):
        self.prop = prop
        self.tier = tier
        self.seed = seed
        self.level = level
        self.t0 = time.time()
        self.cov = {"evaluations": 0, "distinct_nontrivial": 0, "rule": "", "samples": [], "states": 0, "transitions": 0,
                    "traces_validated_against_impl": 0}
        self.assumptions = []
        self.violations = []   # dicts: {what, replay, attrs}
        self.known_seen = {}   # key -> what_fails
        self.notes = {}
        self._known = load_known(prop)
        self._matchers = {}

    def add_matcher(self, key, fn):
        """fn(attrs) -> bool decides whether a violation is the known finding `key`"""
        self._matchers[key] = fn

    def add_model(self, stats):
        if stats:
            self.cov["states"] += stats.get("distinct", 0)
            self.cov["transitions"] += stats.get("generated", 0)

    def violation(self, what, attrs, replay_writer=None):
        """
        Record a violation unless it matches an open known finding.
        replay_writer(path) writes the replay file when the violation is new.
        """
        for f in self._known:
            fn = self._matchers.get(f["key"])
            if fn is not None:
                try:
                    hit = fn(attrs)
                except Exception:
                    hit = False
                if hit:
                    self.known_seen.setdefault(f["key"], f.get("what_fails", ""))
                    return False
        n = len(self.violations)
        path = os.path.join(REPLAY_DIR, "%s-%d.json" % (self.prop, n))
        if n < 25 and replay_writer is not None:
            os.makedirs(REPLAY_DIR, exist_ok=True)
            replay_writer(path)
        self.violations.append({"what": what, "replay": path, "attrs": attrs})
        return True

    def finish(self):
        ev = {
            "property_id": self.prop,
            "tier": self.tier,
            "seed": self.seed,
            "level": self.level,
            "coverage": self.cov,
            "assumptions": self.assumptions,
            "wall_s": round(time.time() - self.t0, 2),
            "violations": len(self.violations),
        }
        ev["coverage"]["known_findings_seen"] = sorted(self.known_seen)
        ev["coverage"].update(self.notes)
        os.makedirs(EVIDENCE_DIR, exist_ok=True)
        with open(os.path.join(EVIDENCE_DIR, self.prop + ".json"), "w") as fp:
            json.dump(ev, fp, indent=1, default=_default)
        for key, what in sorted(self.known_seen.items()):
            print("KNOWN-FINDING: property=%s %s: %s" % (self.prop, key, what))
        shown = set()
        for v in self.violations:
            if v["replay"] in shown:
                continue
            shown.add(v["replay"])
            if len(shown) <= 25:
                print("VIOLATION property=%s replay=%s" % (self.prop, v["replay"]))
                print("  " + v["what"][:400])
        print("%s %s: %d evaluations, %d traces validated, %d violations, %d known findings seen, %.1fs" % (
            self.prop, self.tier, self.cov["evaluations"], self.cov["traces_validated_against_impl"],
            len(self.violations), len(self.known_seen), time.time() - self.t0))
        sys.stdout.flush()
        return 1 if self.violations else 0


def _default(o):
    if isinstance(o, (set, frozenset)):
        return sorted(o, key=str)
    return str(o)


def merge(outs):
    """combine the outcomes of several engines serving one property into one evidence record"""
    first = outs[0]
    for o in outs[1:]:
        for k in ("evaluations", "distinct_nontrivial", "states", "transitions", "traces_validated_against_impl"):
            first.cov[k] += o.cov.get(k, 0)
        first.cov["rule"] = first.cov["rule"] + " || " + o.cov["rule"]
        first.cov["samples"] = list(first.cov["samples"]) + list(o.cov["samples"])
        if "exhaustive" in first.cov or "exhaustive" in o.cov:
            first.cov["exhaustive"] = bool(first.cov.get("exhaustive")) and bool(o.cov.get("exhaustive"))
        first.violations += o.violations
        first.known_seen.update(o.known_seen)
        first.assumptions += o.assumptions
        for k, v in o.notes.items():
            first.notes[k if k not in first.notes else k + "_2"] = v
    return first
