"""
Relay-level plumbing: TLC-generated schedules (behaviours of Relay.tla projected on their environment actions, with
the model's internal steps turned into scheduling delays), conversion of recorder logs into Relay_Trace lines, batch
validation by TLC.
"""
import concurrent.futures

from . import tlc
from .universe import abs_filter_tla

RELAY_VARS = ["open", "reg", "outbox", "qtask", "eosed", "pn", "nf", "accepted", "sent", "busy", "owes"]

DEGENERATE = {"ids": []}     # abstract stand-in for a filter the relay will not evaluate


def fs_tla(fs):
    return [abs_filter_tla(f if f is not None else DEGENERATE) for f in fs]


GEN_EXTRA = r"""
VARIABLE hist
H(r) == hist' = Append(hist, r)
Tau == H([a |-> "tau"])
GenInit == Init /\ hist = <<>>
GenNext ==
    \/ \E c \in Conns_def : Connect(c) /\ H([a |-> "open", c |-> c])
    \/ \E c \in Conns_def : Disconnect(c) /\ H([a |-> "disc", c |-> c])
    \/ \E c \in Conns_def, sid \in SubIds_def, k \in DOMAIN FilterList, out \in {"eose", "toomany"} :
          Req(c, sid, FilterList[k], out, 0) /\ H([a |-> "REQ", c |-> c, sid |-> sid, k |-> k])
    \/ \E c \in Conns_def, sid \in SubIds_def, k \in DOMAIN FilterList, g \in Gens_def :
          /\ g \notin DOMAIN qtask /\ \A h \in Gens_def : h < g => h \in DOMAIN qtask
          /\ Req(c, sid, FilterList[k], "started", g) /\ H([a |-> "REQ", c |-> c, sid |-> sid, k |-> k])
    \/ \E c \in Conns_def, sid \in SubIds_def : Close(c, sid) /\ H([a |-> "CLOSE", c |-> c, sid |-> sid])
    \/ \E c \in Conns_def, e \in Ids : Submit(c, e) /\ H([a |-> "EVENT", c |-> c, e |-> e])
    \/ \E c \in Conns_def, e \in Ids : FanOut(c, e, nf + 1) /\ Tau
    \/ \E c \in Conns_def, ok \in BOOLEAN : (Accept(c, ok) \/ ReplyOk(c, ok)) /\ Tau
    \/ \E c \in Conns_def : (Send(c) \/ Notice(c) \/ Commit(c) \/ RefuseOk(c)) /\ Tau
    \/ \E n \in pn, put \in BOOLEAN : Notify(n, put) /\ Tau
    \/ \E cs \in Registered, i \in Ids : QPutEvent(cs[1], cs[2], reg[cs[1]][cs[2]].gen, i, reg[cs[1]][cs[2]].fs) /\ Tau
    \/ \E cs \in Registered : QPutEose(cs[1], cs[2], reg[cs[1]][cs[2]].gen) /\ Tau
GenSpec == GenInit /\ [][GenNext]_<<vars, hist>>
GenEmit == Len(hist) < GenDepth \/ PrintT("@@" \o ToJson(hist))
GenBound == Len(hist) <= GenDepth
"""


def relay_gen_module(name, uni, nconns, sids, filter_lists, sublimit, backend, ngens, depth):
    consts = {
        "Universe": uni.tla_universe(),
        "OneCharNames": set(uni.one_char_names()),
        "Conns": set(range(nconns)),
        "SubIds": set(sids),
        "FilterSets": set(),
        "SubLimit": sublimit,
        "Backend": backend,
        "Gens": set(range(1, ngens + 1)),
    }
    extra = "FilterList == %s\nGenDepth == %d\n" % (tlc.tla([fs_tla(fs) for fs in filter_lists]), depth) + GEN_EXTRA
    text = tlc.mc_module(name, "Relay", RELAY_VARS, consts, extends=("Integers", "Sequences", "FiniteSets", "TLC", "Json"), extra=extra)
    # FilterSets is a set of sequences of records: emit it from FilterList instead of the empty set
    return text.replace("FilterSets_def == {}", "FilterSets_def == {FilterList[k] : k \\in DOMAIN FilterList}")


GEN_CFG = "SPECIFICATION GenSpec\nINVARIANT GenEmit\nCONSTRAINT GenBound\nCHECK_DEADLOCK FALSE\n"


def gen_relay_schedules(uni, nconns, sids, filter_lists, sublimit, backend, depth, num, seed, ngens=8, timeout=600):
    """
    -simulate behaviours of Relay.tla -> schedules for relaydrv.run_connections.
    Internal steps of the model between two client messages become ("yield", k); a behaviour's end is ("idle",).
    """
    with tlc.Workdir(prefix="rgen-") as wd:
        text = relay_gen_module("MCRG", uni, nconns, sids, filter_lists, sublimit, backend, ngens, depth)
        # FilterList must be defined before it is used by FilterSets_def
        lines = text.split("\n")
        fl = [k for k, ln in enumerate(lines) if ln.startswith("FilterList ==")][0]
        fs = [k for k, ln in enumerate(lines) if ln.startswith("FilterSets_def ==")][0]
        if fl > fs:
            item = lines.pop(fl)
            lines.insert(fs, item)
        wd.write("MCRG.tla", "\n".join(lines))
        cfg = wd.write("MCRG.cfg", GEN_CFG)
        res = tlc.run_tlc(wd, "MCRG", cfg, workers=4, timeout=timeout, simulate="num=%d" % num, depth=depth + 2, seed=seed)
    hists = list(tlc.printed_json(res["out"]))
    if not hists:
        raise tlc.TlcError("relay schedule generation produced nothing: " + tlc.tlc_failed_how(res["out"]))
    seen = {}
    ndisc = [0]
    for hist in hists:
        sched = []
        taus = 0
        opened = set()
        closed = set()
        for h in hist:
            a = h["a"]
            if a == "tau":
                taus += 1
                continue
            if taus and sched:
                sched.append(("yield", min(taus, 6)) if taus < 4 else ("idle",))
            taus = 0
            if a == "open":
                if h["c"] in opened:
                    continue            # a connection id is used once
                sched.append(("open", h["c"]))
                opened.add(h["c"])
            elif h["c"] in closed or h["c"] not in opened:
                continue
            elif a == "disc":
                # the model's Disconnect is any end of the connection: the peer goes away, or (every third one) it stays
                # silent until the relay's message timeout fires and the relay itself closes the connection
                ndisc[0] += 1
                sched.append(("timeout", h["c"]) if ndisc[0] % 3 == 0 else ("disc", h["c"]))
                closed.add(h["c"])
            elif a == "REQ":
                sched.append(("msg", h["c"], {"m": "REQ", "sid": h["sid"], "fs": filter_lists[h["k"] - 1]}))
            elif a == "CLOSE":
                sched.append(("msg", h["c"], {"m": "CLOSE", "sid": h["sid"]}))
            elif a == "EVENT":
                sched.append(("msg", h["c"], {"m": "EVENT", "e": h["e"]}))
        sched.append(("idle",))
        seen.setdefault(repr(sched), sched)
    return list(seen.values()), tlc.parse_stats(res["out"])


# ---- log -> trace ----------------------------------------------------------------------------------

KEEP = {"Conn", "Req", "Close", "Submit", "FanOut", "Accept", "Notify", "QPut", "Send", "Drop", "Idle", "End", "Limited", "Recv"}


def log_to_trace(log, info, nconns):
    """recorder log -> Relay_Trace lines"""
    out = []
    open_conns = set()
    for ln in log:
        a = ln["a"]
        if a not in KEEP:
            continue
        if a == "QPut" and ln.get("by") == "handler":
            continue          # the immediate EOSE of a REQ without evaluable filter: part of the Req line
        if a == "Conn":
            open_conns.add(ln["c"])
            out.append({"a": "Conn", "c": ln["c"]})
        elif a == "Req":
            out.append({"a": "Req", "c": ln["c"], "sid": ln["sid"], "fs": fs_tla(ln["fs"]), "out": ln["out"], "gen": ln["gen"],
                        "reg": ln["reg"]})
        elif a == "Close":
            out.append({"a": "Close", "c": ln["c"], "sid": ln["sid"], "reg": ln["reg"]})
        elif a == "Submit":
            out.append({"a": "Submit", "c": ln["c"], "e": ln["e"]})
        elif a == "FanOut":
            out.append({"a": "FanOut", "c": ln.get("c", -1), "e": ln["e"], "r": ln["r"], "targets": [list(t) for t in ln["targets"]]})
        elif a == "Accept":
            out.append({"a": "Accept", "c": ln["c"], "ok": bool(ln["ok"]), "_err": ln.get("err", "")})
        elif a == "Notify":
            out.append({"a": "Notify", "c": ln["c"], "sid": ln["sid"], "gen": ln["gen"], "e": ln["e"], "r": ln["r"], "put": ln["put"]})
        elif a == "QPut":
            out.append({"a": "QPut", "c": ln["c"], "sid": ln["sid"], "gen": ln["gen"], "item": ln["item"]})
        elif a == "Send":
            f = dict(ln["f"])
            f.pop("reason", None)
            f.pop("text", None)
            f.pop("challenge", None)
            f.pop("why", None)
            out.append({"a": "Send", "c": ln["c"], "f": f})
        elif a == "Limited":
            out.append({"a": "Limited", "c": ln["c"]})
        elif a == "Recv":
            out.append({"a": "Recv", "c": ln["c"], "m": ln["m"] if ln["m"] in ("REQ", "CLOSE", "EVENT") else "OTHER"})
        elif a == "Drop":
            open_conns.discard(ln["c"])
            out.append({"a": "Drop", "c": ln["c"]})
        elif a == "Idle":
            reg = {c: ln["reg"].get(c, {}) for c in open_conns}
            out.append({"a": "Idle", "reg": reg, "settled": bool(ln["ok"])})
        elif a == "End":
            ok = all(v["result"] == "returned" for v in info.values())
            out.append({"a": "End", "tasks": ln["tasks_left"], "handlers_ok": ok})
    return out


def relay_trace_data(uni, nconns, sids, sublimit, backend, traces, ngens=64):
    defs = {
        "TD_Universe": uni.tla_universe(),
        "TD_OneCharNames": set(uni.one_char_names()),
        "TD_Conns": set(range(nconns)),
        "TD_SubIds": set(sids),
        "TD_SubLimit": sublimit,
        "TD_Backend": backend,
        "TD_Gens": set(range(1, ngens + 1)),
        "Traces": [[{k: v for k, v in ln.items() if not k.startswith("_")} for ln in tr] for tr in traces],
    }
    return "---- MODULE TraceData ----\nEXTENDS Integers, Sequences, TLC\n" + "\n".join("%s == %s" % (k, tlc.tla(v)) for k, v in defs.items()) + "\n====\n"


TRACE_CFG = "SPECIFICATION TraceSpec\nCHECK_DEADLOCK FALSE\n"


def _run_batch(args):
    import os
    import shutil

    text, n, ntraces, timeout = args
    with tlc.Workdir(prefix="rtrace-") as wd:
        wd.write("TraceData.tla", text)
        shutil.copy(os.path.join(tlc.SPEC_DIR, "Relay_Trace.tla"), os.path.join(wd.path, "Relay_Trace.tla"))
        cfg = wd.write("Relay_Trace.cfg", TRACE_CFG)
        res = tlc.run_tlc(wd, "Relay_Trace", cfg, workers=1, timeout=timeout, heap="3g")
    # where the trace specification has to guess something the log does not show (which of two connections' commits made an
    # event visible) TLC follows every guess and prints one verdict per end state: a trace is explained if one of them explains it
    verdicts = {}
    for obj in tlc.printed_json(res["out"]):
        if obj["tid"] not in verdicts or len(obj["bad"]) < len(verdicts[obj["tid"]]["bad"]):
            verdicts[obj["tid"]] = obj
    stats = tlc.parse_stats(res["out"])
    ok = res["rc"] == 0 and stats is not None and len(verdicts) == ntraces
    return {"ok": ok, "verdicts": verdicts, "stats": stats, "out": res["out"] if not ok else "", "wall_s": res["wall_s"]}


def validate_relay_traces(uni, nconns, sids, sublimit, backend, traces, batch=150, jobs=16, timeout=900):
    idx = [k for k, tr in enumerate(traces) if tr]
    batches = []
    for b in range(0, len(idx), batch):
        chunk = idx[b:b + batch]
        text = relay_trace_data(uni, nconns, sids, sublimit, backend, [traces[k] for k in chunk])
        batches.append((chunk, (text, len(batches), len(chunk), timeout)))
    verdicts = {k: [] for k in range(len(traces))}
    total = {"generated": 0, "distinct": 0, "batches": len(batches)}
    with concurrent.futures.ThreadPoolExecutor(max_workers=max(1, min(jobs, len(batches) or 1))) as ex:
        results = list(ex.map(_run_batch, [b[1] for b in batches]))
    for (chunk, _), res in zip(batches, results):
        if not res["ok"]:
            raise tlc.TlcError("relay trace validation failed to run: " + tlc.tlc_failed_how(res["out"]))
        total["generated"] += res["stats"]["generated"]
        total["distinct"] += res["stats"]["distinct"]
        for pos, k in enumerate(chunk):
            verdicts[k] = sorted([list(x) for x in res["verdicts"][pos + 1]["bad"]], key=lambda x: (x[1], x[0]))
    return verdicts, total
