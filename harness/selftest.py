"""
./check selftest [--tier quick|thorough]

Two demonstrations that the machinery is neither vacuous nor unbound (DESIGN I.10):

 (1) action coverage: every exhaustive configuration is run with `-coverage 1`; an action of a specification that TLC never
     took (0 distinct states) means the formulas about it were never exercised.  Reported per configuration.
 (2) the binding binds: recorded traces of the real code that TLC accepts are corrupted one field at a time (an id added to
     a store dump, an OK flipped, an answer reordered or shortened, a victim added to a write transaction, a push removed,
     an EOSE duplicated); TLC must reject every corrupted trace.

exit 0: nothing vacuous, every corruption rejected; 1 otherwise (this is about the machinery, not about the repository).
"""
import concurrent.futures
import copy
import json
import os
import random
import re

from . import common as C
from . import pool, tlc, trace, tracedata
from .universe import Universe

CONFIGS = [
    ("MC_Store", "MC_Store_sql.cfg"), ("MC_Store", "MC_Store_lmdb.cfg"),
    ("MC_Relay", "MC_Relay_sql_quick.cfg"), ("MC_Relay", "MC_Relay_lmdb_quick.cfg"),
    ("MC_RateLimiter", "MC_RateLimiter_A.cfg"), ("MC_RateLimiter", "MC_RateLimiter_D.cfg"),
    ("MC_Notifier", "MC_Notifier_exact.cfg"), ("MC_KvIndex", "MC_KvIndex.cfg"), ("MC_Auth", "MC_Auth.cfg"),
    ("MC_DynLists", "MC_DynLists_repaired.cfg"), ("MC_KvScan", "MC_KvScan_quick.cfg"), ("MC_KvWrite", "MC_KvWrite.cfg"),
]
# definitions a configuration cannot complete by construction (the other backend's actions, as-found variants ...)
EXPECTED_INCOMPLETE = {
    "MC_Store_sql.cfg": ("Store!AcceptLmdb", "Store!WriterStep"),          # the LMDB backend's actions
    "MC_Store_lmdb.cfg": ("Store!AcceptSql",),
    "MC_DynLists_repaired.cfg": ("DynLists!AddInit", "DynLists!Clear", "DynLists!Update"),   # the refresher as found
}

_LINE = re.compile(r"^\s*\|*\s*line (\d+), col \d+ to line (\d+), col \d+ of module (\w+): (\d+)\s*$")
_DEF = re.compile(r"^([A-Z]\w*)(\([^)]*\))?\s*==")


def _definitions(module):
    """[(first line, name)] of the top-level definitions of a specification module"""
    out = []
    path = os.path.join(tlc.SPEC_DIR, module + ".tla")
    if not os.path.exists(path):
        return out
    with open(path) as fp:
        for n, ln in enumerate(fp, 1):
            m = _DEF.match(ln)
            if m:
                out.append((n, m.group(1)))
    return out


def _coverage(mc):
    """
    TLC's coverage lists, per expression, how often it was evaluated.  A definition of the specification (an action, a
    property body) whose LAST expression was never evaluated was never carried through: reported as never completed.
    """
    mod, cfg = mc
    with tlc.Workdir(prefix="cov-") as wd:
        res = tlc.run_tlc(wd, mod, os.path.join(tlc.SPEC_DIR, cfg), workers=4, timeout=2400, coverage=True, heap="6g")
    stats = tlc.parse_stats(res["out"])
    per = {}           # (module, definition) -> {line: max count}
    defs = {}
    for ln in res["out"].splitlines():
        m = _LINE.match(ln)
        if not m:
            continue
        first, module, count = int(m.group(1)), m.group(3), int(m.group(4))
        if module.startswith("MC_"):
            continue
        if module not in defs:
            defs[module] = _definitions(module)
        name = None
        for start, nm in defs[module]:
            if start <= first:
                name = nm
            else:
                break
        if name:
            d = per.setdefault((module, name), {})
            d[first] = max(d.get(first, 0), count)
    never = sorted("%s!%s" % k for k, d in per.items() if d and d[max(d)] == 0 and ("%s!%s" % k) not in EXPECTED_INCOMPLETE.get(cfg, ()))
    return {"config": cfg, "rc": res["rc"], "stats": stats, "definitions_covered": len(per), "never_completed": never}


# ------------------------------------------------------------------------------------------------------------------
# corruption tests

def _store_family():
    from .checks import storefam

    uni = Universe(storefam.universes_c09()["repl"])
    script = (("submit", "a1"), ("drain",), ("submit", "a3"), ("drain",), ("submit", "a2"), ("drain",), ("get", "a3"),
              ("query", [{"kinds": [10000]}]))
    out = []
    for backend in ("sql", "lmdb"):
        tr = pool.run_scripts(uni, backend, [script], jobs=1)[0]

        def corrupt(fn):
            t = copy.deepcopy(tr)
            fn(t)
            return t

        def add_id(t):
            [ln for ln in t if "post" in ln][-1]["post"].add("a1")

        def flip_ok(t):
            ln = [ln for ln in t if ln["a"] == "Submit"][0]
            ln["ok"] = not ln["ok"]

        def extra_bc(t):
            [ln for ln in t if ln["a"] == "Submit"][-1]["bc"].append("a1")

        def wrong_answer(t):
            [ln for ln in t if ln["a"] == "Query"][0]["res"] = ["a1"]

        def dup_answer(t):
            ln = [ln for ln in t if ln["a"] == "Query"][0]
            ln["res"] = ln["res"] + ln["res"]

        def get_lies(t):
            ln = [ln for ln in t if ln["a"] == "Get"][0]
            ln["found"] = not ln["found"]

        variants = [("unchanged", tr)] + [(f.__name__, corrupt(f)) for f in (add_id, flip_ok, extra_bc, wrong_answer, dup_answer, get_lies)]
        verdicts, _ = trace.validate_store_traces(uni, backend, [v for _, v in variants])
        for k, (name, _) in enumerate(variants):
            out.append(("Store_Trace/" + backend, name, verdicts[k]))
    return out


def _kv_family():
    from .checks import kvscan

    rnd = random.Random(7)
    uni = Universe(kvscan.scan_universe(), symtab=kvscan.SYMTAB)
    # (single-value filters: a multi-value one that truncates shows the open finding 11b)
    flts = [{"kinds": [7], "until": 30}, {"kinds": [1], "limit": 2}, {"authors": ["B"], "tags": {"t": ["ab"]}}, {"since": 20, "until": 30}]
    key = id(uni)
    pool._CTX[key] = uni
    try:
        tr = pool.map_in_workers("harness.checks.kvscan", "_worker", [(key, list(uni.order), flts)], config={"max_limit": kvscan.MAX_LIMIT})[0]
    finally:
        pool._CTX.pop(key, None)
    pksym, idsym, chars = kvscan._encodings(uni, flts)
    defs = {"TD_Universe": uni.tla_universe(), "TD_OneCharNames": uni.one_char_names(), "TD_MaxLimit": kvscan.MAX_LIMIT,
            "TD_PkSym": pksym, "TD_IdSym": idsym, "TD_Chars": chars}

    def corrupt(fn):
        t = copy.deepcopy(tr)
        fn(t)
        return t

    def drop_answer(t):
        t[0]["ans"] = t[0]["ans"][:-1]

    def reorder_answer(t):
        t[0]["ans"] = list(reversed(t[0]["ans"]))

    def extra_yield(t):
        t[0]["ys"] = t[0]["ys"] + ["q8"]

    def over_limit(t):
        t[1]["ans"] = t[1]["ans"] + [x for x in ("q1", "q4", "q5") if x not in t[1]["ans"]][:1]

    def store_lies(t):
        t[0]["store"] = set(t[0]["store"]) - {"q4"}       # an event of the answer is said not to be stored

    variants = [("unchanged", tr)] + [(f.__name__, corrupt(f)) for f in (drop_answer, reorder_answer, extra_yield, over_limit, store_lies)]
    verdicts, _ = tracedata.validate("KvScan_Trace", defs, [v for _, v in variants], batch=10)
    out = [("KvScan_Trace", name, verdicts[k]) for k, (name, _) in enumerate(variants)]
    # writer
    from .checks import storefam

    uni2 = Universe(storefam.universes_c08()["deledge"])
    script = (("submit", "nf"), ("submit", "n0"), ("submit", "ne"), ("submit", "nb"), ("submit", "dd"), ("drain",))
    w = kvscan._writer_lines(pool.run_scripts(uni2, "lmdb", [script], jobs=1)[0])
    pk2, id2, ch2 = kvscan._encodings(uni2, [])
    defs2 = {"TD_Universe": uni2.tla_universe(), "TD_OneCharNames": uni2.one_char_names(), "TD_PkSym": pk2, "TD_IdSym": id2, "TD_Chars": ch2}

    def wc(fn):
        t = copy.deepcopy(w)
        fn(t)
        return t

    def victim_survives(t):
        t[-1]["post"] = set(t[-1]["post"]) | {"nf"}

    def bystander_removed(t):
        t[-1]["post"] = set(t[-1]["post"]) - {"nb"}

    def not_written(t):
        t[0]["post"] = set()

    wv = [("unchanged", w)] + [(f.__name__, wc(f)) for f in (victim_survives, bystander_removed, not_written)]
    verdicts2, _ = tracedata.validate("KvWrite_Trace", defs2, [v for _, v in wv], batch=10)
    out += [("KvWrite_Trace", name, verdicts2[k]) for k, (name, _) in enumerate(wv)]
    return out


def _relay_family():
    from . import relaytrace
    from .checks import relayfam

    uni = Universe(relayfam.relay_universe())
    sched = [("open", 0), ("open", 1), ("msg", 0, {"m": "REQ", "sid": "s1", "fs": [{"kinds": [1]}]}), ("idle",),
             ("msg", 1, {"m": "EVENT", "e": "n1"}), ("idle",), ("msg", 0, {"m": "CLOSE", "sid": "s1"}), ("idle",),
             ("msg", 1, {"m": "EVENT", "e": "n3"}), ("idle",)]
    res = pool.map_in_workers("harness.checks.relayfam", "_worker", [("sql", [sched], "plain", 0)], config={})
    return res


def main(tier="quick"):
    report = {"coverage": [], "corruptions": []}
    bad = 0
    print("== (1) action coverage of the exhaustive configurations")
    with concurrent.futures.ThreadPoolExecutor(max_workers=3) as ex:
        for r in ex.map(_coverage, CONFIGS):
            report["coverage"].append(r)
            st = r["stats"] or {}
            print("  %-32s rc=%s distinct=%s definitions=%d never completed: %s" % (r["config"], r["rc"], st.get("distinct"), r["definitions_covered"],
                                                                                 ", ".join(r["never_completed"]) or "-"))
            if r["rc"] != 0 or r["never_completed"] or not r["definitions_covered"]:
                bad += 1
    print("== (2) corrupted traces must be rejected")
    rows = _store_family() + _kv_family()
    for fam, name, verdict in rows:
        names = sorted({b[0] for b in verdict})
        ok = (not verdict) if name == "unchanged" else bool(verdict)
        report["corruptions"].append({"family": fam, "corruption": name, "verdict": names, "as_expected": ok})
        print("  %-22s %-20s -> %s%s" % (fam, name, ", ".join(names) or "accepted", "" if ok else "   <-- UNEXPECTED"))
        if not ok:
            bad += 1
    os.makedirs(os.path.join(C.VERIF, "out"), exist_ok=True)
    with open(os.path.join(C.VERIF, "out", "selftest.json"), "w") as fp:
        json.dump(report, fp, indent=1, default=str)
    print("selftest: %d problem(s)" % bad)
    return 1 if bad else 0
