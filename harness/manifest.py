"""Regenerates /verif/MANIFEST.json from the table below:  /venv/bin/python -m harness.manifest"""
import json
import os

from .common import VERIF

BASELINE_OFF = ("cd /repo && NOSTR_RELAY_VERIF= /venv/bin/python -m pytest -ra -q -p no:cacheprovider --timeout=900 "
                "--continue-on-collection-errors")

STORE_NOTE = ("Trusted: TLC, SQLite, liblmdb 0.9.31 driven through the ctypes shim in /verif/shim (replaces py-lmdb's Python layer for "
              "the API subset kv.py uses; self-tested by ./check setup), the vendored pure-Python msgpack, coincurve/hashlib/json as "
              "the authenticity oracle. Bounded: universes and depth as stated in the evidence; PostgreSQL is not exercisable here.")

CHECKS = {
    "C06": dict(
        cat="model_checking", ref="DESIGN.md §5 C06",
        text=("Store.tla states the acknowledgement contract (refused = no trace, admissible = not refused, resubmission changes and "
              "broadcasts nothing, acked = retrievable/ephemeral/superseded, one broadcast per accept); TLC proves the properties from "
              "the spec exhaustively on MC_Store (both backends, depth 6) and generates every behaviour of Submit/Writer steps to a "
              "depth over universes with duplicates, forged events, replaceables, deletions and authentic-but-malformed events (class Dubious: "
              "a deletion with a reference that is not an id, an expiration tag without a value - refusable, but only without a trace); each is run on DBStorage and "
              "LMDBStorage with the full store/queue/broadcast state logged after every step, and TLC validates every trace against "
              "the spec actions and evaluates every property body on every step."),
        technique="TLA+ Store.tla model-checked by TLC; TLC-generated behaviours replayed on the real storage classes; traces validated by TLC (Store_Trace.tla)"),
    "C08": dict(
        cat="model_checking", ref="DESIGN.md §5 C08",
        text=("C08_OnlyAuthorDeletes (frame condition: a kind-5 step removes only own referenced events and at least the older ones) "
              "is model-checked on Store.tla and evaluated by TLC on every step of every trace of TLC-generated histories mixing three "
              "authors, own/foreign/unknown/duplicate references, deletions older than / equal to / newer than their targets and "
              "deletions of deletions, targets at the byte-order edges of the deleter's index walk (one second older, ids starting 0xff / 0x00), "
              "on both backends; after every step every event submitted so far is looked up by id through storage.get_event and through "
              "HTTP GET /e/<id> (the ASGI application built by web.create_app over the same storage), with the id in lower- and upper-case "
              "hex, and at the end every id also through a REQ by ids (Store!A_C08_GetAgrees: served iff stored). Second engine (LMDB): KvWrite.tla "
              "transcribes the writer's transaction (WriterThread.run / _post_save on top of the scanner of KvScan.tla); TLC model-checks "
              "that it refines the C08 clause (MC_KvWrite; with the seek target as found it yields the counterexample of finding 20) and, "
              "for every recorded write transaction of the real writer, computes the transcription's outcome, compares, and evaluates "
              "the clause on the recorded step (KvWrite_Trace.tla)."),
        technique="TLA+ Store.tla model-checked by TLC; TLC-generated histories replayed on both backends; traces validated by TLC; TLA+ KvWrite.tla (transcribed LMDB writer over the transcribed scanner) model-checked and trace-validated per write transaction"),
    "C09": dict(
        cat="model_checking", ref="DESIGN.md §5 C09",
        text=("C09_Replaceable (only same-address not-newer versions disappear, every older one does, regular events remove nothing) "
              "is model-checked on Store.tla and evaluated by TLC on every step of every trace of all arrival orders (to a depth) over "
              "six universes: plain/metadata replaceables with timestamp ties, d-values that are substrings of one another, "
              "absent/bare/empty d tags, kind-range boundaries, unicode d-values; both backends, with and without writer lag. Second "
              "engine (LMDB): KvWrite.tla (the writer's transaction over the scanner of KvScan.tla) is model-checked against the C09 "
              "clause (MC_KvWrite) and, for every recorded write transaction of the real writer, TLC computes the transcription's "
              "outcome, compares, and evaluates the clause on the recorded step (KvWrite_Trace.tla)."),
        technique="TLA+ Store.tla model-checked by TLC; TLC-generated arrival orders replayed on both backends; traces validated by TLC; TLA+ KvWrite.tla (transcribed LMDB writer) model-checked and trace-validated per write transaction"),
    "C17": dict(
        cat="model_checking", ref="DESIGN.md §5 C17",
        text=("C17_GcExact (a pass at T removes exactly the ephemeral and the expired) is model-checked on Store.tla and evaluated by "
              "TLC on traces of TLC-generated histories with collections at T and T+1 over kinds at the ephemeral boundaries and "
              "expirations T-1/T/T+1/far/malformed/other digit counts/integer-typed, with the collectors' clock injected; both backends; a "
              "three-event universe is explored to depth 4 / 6 (collected, submitted again, collected again). The SQL runs use SQLite on a file "
              "and every other script makes its passes while another client's stored query is being streamed (its connection stays checked "
              "out of the pool); the complete row / key dump after every step is judged by TLC for entries that outlive their record "
              "(KvIndex!EntriesWithoutRecord: '... together with all their index entries')."),
        technique="TLA+ Store.tla model-checked by TLC; TLC-generated histories with Gc steps replayed on both backends; traces validated by TLC"),
}

QUERY_NOTE = ("Trusted: TLC; SQLite; liblmdb through the ctypes shim; pydantic's validation as part of the relay under test. The string "
              "domain of filter values is sampled by palettes (quotes/backslashes, SQL and Python metacharacters, NUL and control "
              "characters, non-BMP and bidi code points), not enumerated; the filter grammar is instantiated by the Python driver over "
              "the universe's symbols, every answer is judged by TLC. PostgreSQL and full-text search are not exercisable here.")

CHECKS.update({
    "C01": dict(
        cat="exploration", ref="DESIGN.md §5 C01", note=QUERY_NOTE,
        text=("Every answer of the REQ path (storage.subscribe ... EOSE) to every filter of a grammar over the universe's own and "
              "foreign symbols, under four to six palettes of hostile strings and including a grammar of malformed filters (every JSON "
              "type at every field, hostile tag names, odd keys, non-dict filters), is recorded as a Query line and TLC evaluates "
              "Query.tla's Sound on it against the store the trace established (only stored events, each matching a live filter; a "
              "dropped/degenerate filter may contribute nothing). Exploration level: the input language is sampled, the judge is the spec."),
        technique="TLA+ Query.tla (Sound) evaluated by TLC on recorded answers of the real REQ path; grammar + palette driven exploration"),
    "C02": dict(
        cat="model_checking", ref="DESIGN.md §5 C02", note=QUERY_NOTE,
        text=("Complete and Multiplicity of Query.tla are evaluated by TLC on every answer to the whole filter grammar (all one- and "
              "two-field conjunctions x time windows at grid-1/grid/grid+1, a seeded sample of 3/4-field conjunctions, 2-5 filter "
              "REQs) over several histories of a universe crafted for byte-order hazards (ids starting ff/00, equal timestamps, tag "
              "values that are prefixes of one another, quote/backslash tag names, a delegated, a replaced and a deleted event) on both "
              "backends; the LMDB planner's index choice is covered for ids, created_at, kinds, authors, author+kind, tags and chained "
              "multi-index plans. Second engine (LMDB): KvScan.tla transcribes planner, Index.scanner (cursor walk over the byte-ordered "
              "keyspace), IdIndex / MultiIndex scanners, matcher and limit; TLC model-checks the transcription for soundness, completeness "
              "under the limit and multiplicity over every store of a six-event universe x a product grammar of filters (MC_KvScan), and, "
              "for thousands of (seeded store, filter) runs of the real LMDBStorage, executes the transcription on the dumped store, "
              "compares the scanner's yields (seen through a wrapper around kv.matcher) and the answer with the recorded ones and "
              "evaluates the query clauses on the recorded answer (KvScan_Trace.tla); runs on which code and transcription differ are "
              "reported as deviations, the property is judged on the recorded answer. The grammar also contains multi-value ids / authors lists in "
              "every lower / upper-case spelling, bounds at the epoch (since: 0, until: 0), and a seeded sample of the REQs is sent through "
              "the connection handler (web.start_client) on one long-lived connection per script with two subscription ids re-used without "
              "CLOSE, the frames between REQ and EOSE being the answer."),
        technique="TLA+ Query.tla (Complete, Multiplicity) evaluated by TLC on recorded answers to an enumerated filter grammar on both backends; TLA+ KvScan.tla (transcribed LMDB planner/scanner) model-checked by TLC and bound to the code by trace validation of scanner yields and answers"),
    "C12": dict(
        cat="model_checking", ref="DESIGN.md §5 C12", note=QUERY_NOTE,
        text=("With max_limit=3 configured before import, every filter of the grammar x limits {absent,0,1,2,3,4,10^9} and multi-filter "
              "REQs are answered through the subscription path; TLC evaluates LimitOK of Query.tla (existential attribution of delivered "
              "items to filters, at most min(limit,max_limit) per filter, no left-out matching event newer than a sent one) on every answer. "
              "Second engine (LMDB): the transcription KvScan.tla is model-checked for KS_AtMostLimit and KS_NewestSingle (MC_KvScan; "
              "MC_KvScan_asfound reproduces the open finding for multi-value scans as a TLC counterexample) and executed by TLC on every "
              "recorded (store, filter) of the real LMDBStorage (KvScan_Trace.tla); there the open finding is recognised precisely: the "
              "recorded answer equals the one the transcribed algorithm produces and the filter has several match values. Answers during which "
              "the storage engine fails transiently (SQL: the fetch that follows k delivered rows raises 'database is locked') are judged by "
              "Query!FaultedVerdict: cut short perhaps, never more than the limit (C12_AtMostLimit, a plain count), never an event twice, and "
              "what was sent is a newest-first prefix. REQs through the connection handler as under C02. Limits are also written as 4.0, 1e1, "
              "\"4\", 1e9 and judged as the integer they denote."),
        technique="TLA+ Query.tla (LimitOK) evaluated by TLC on recorded answers with max_limit=3 on both backends; TLA+ KvScan.tla (transcribed LMDB planner/scanner/limit) model-checked by TLC and trace-validated against the real scanner"),
})

RELAY_NOTE = ("Trusted: TLC; CPython asyncio (single-threaded FIFO loop: the recorder's log order is the real step order); SQLite and "
              "liblmdb through the shim. Observation is by harness-side wrappers around storage.subscribe/unsubscribe/add_event/"
              "notify_all_connected, BaseSubscription.notify and the captured subscription queue; if the repository renames these the "
              "check fails as machinery (exit 2), it cannot silently pass. Schedules come from TLC -simulate of Relay.tla (seeded); "
              "bounded to 2 connections, 3 sub ids, 7 filter lists, 6 events. uvicorn/falcon websocket framing is not in the loop: "
              "web.start_client is driven directly, as purple.py does.")

CHECKS.update({
    "C13": dict(
        cat="model_checking", ref="DESIGN.md §5 C13", note=RELAY_NOTE,
        text=("Relay.tla (one action per non-suspending stretch of the handler, query, notify and sender tasks) is model-checked by TLC "
              "for C13_OneEose, C13_SubLimit, C13_OnlyRegisteredGens, C13_RegisteredIsLive, C13_StoredBeforeEose, "
              "C13_NoStoredAfterCancel, C13_RefusedKeepsOthers (MC_Relay, both backends). TLC-simulated behaviours are replayed as "
              "client schedules on web.start_client for two connections over both backends; the recorder's totally ordered log "
              "(Req/Close/Submit/FanOut/Accept/Notify/QPut/Send/Drop/Idle) is validated line by line against the Relay actions, every "
              "property body is evaluated on every step, and at every Idle line nothing may be pending (every REQ answered by EOSE or "
              "NOTICE, every query task finished). The environment's choices are widened where a window is narrow: every other schedule has all "
              "connections come from one address with the same random token; every third connection end is a message timeout (the relay "
              "closes with 1013); the storage layer's wait before a fan-out always takes a few loop turns and 'defer' steps deliver a REQ / "
              "CLOSE of another connection exactly then; hand-made race schedules join the simulated ones; the empty string is one of the "
              "three subscription ids; every fifth schedule runs with a cross-worker notifier that has no connection."),
        technique="TLA+ Relay.tla model-checked by TLC; TLC-simulated schedules replayed on web.start_client; ordered logs validated by TLC (Relay_Trace.tla)"),
    "C05": dict(
        cat="model_checking", ref="DESIGN.md §5 C05", note=RELAY_NOTE,
        text=("C05_FanOutExact (a fan-out creates exactly one notify task per subscription registered at that instant), "
              "C05_LiveMatchAgrees (a task pushes iff the event matches the filters of the Subscription object it was created for: must "
              "when strictly inside the window, must not when not even loosely matching - the same Matches operator that judges stored "
              "answers), C05_PushOnlyByNotify and C05_EventuallyDelivered (nothing pending at Idle) are model-checked on Relay.tla and "
              "evaluated by TLC on every step of every recorded multi-connection execution on both backends."),
        technique="TLA+ Relay.tla model-checked by TLC; TLC-simulated schedules replayed on web.start_client; ordered logs validated by TLC (Relay_Trace.tla)"),
})
CHECKS["C06"]["text"] += (" At connection level (Relay.tla) C06_OkMatchesOutcome is checked on every recorded execution: exactly one OK "
                          "per EVENT, written after add_event returned, TRUE iff the event was handed to the fan-out.")
CHECKS["C06"]["technique"] += "; plus Relay.tla trace validation of the OK frames"

CHECKS["C18"] = dict(
    cat="model_checking", ref="DESIGN.md §5 C18",
    note=("Trusted: TLC. The clock is injected (RateLimiter._timestamp), so time is exact; the deque state is read from "
          "recent_commands. Bounds: 3 addresses, 2 commands, clock steps {0,1,30,61} s, seven rule sets (global+ip+specific+exempt; ip only; global+specific; a longer window with a smaller allowance; exemptions beside limiting rules of one command; IPv6 clients; a specific address whose own window is longer than any per-IP one), arrival sequences "
          "exhaustive to depth 3 (quick) / 4 (thorough) plus seeded long runs of 120-300 arrivals."),
    text=("RateLimiter.tla contains a step-for-step transcription of is_limited / evaluate_rules / cleanup and, separately, the "
          "contract of C18 over the history of decisions (window bound, no over-blocking, specific rule overrides, n=-1 exempts, "
          "bounded state). TLC checks transcription => contract exhaustively (MC_RateLimiter, six rule sets; the IPv6 one is validated at trace level), enumerates every "
          "arrival sequence to a depth, and validates the run of the real class on each of them (decision and complete deque state "
          "after every call) against the transcription while evaluating the contract on every decision. At handler level, Relay.tla's "
          "Limited / RefuseOk actions say what a limited message may do (answered as refused, no other effect); relay schedules run with "
          "a real RateLimiter whose decisions are logged and the traces are validated by TLC (Relay_Trace.tla)."),
    technique="TLA+ RateLimiter.tla (transcription refines contract) model-checked by TLC; all TLC-enumerated arrival sequences replayed on the real class; runs validated by TLC; Relay.tla trace validation of limited messages at handler level")

CHECKS["C20"] = dict(
    cat="model_checking", ref="DESIGN.md §5 C20",
    note=("Trusted: TLC; asyncio.StreamReader (fed by hand: this is what allows every chunking, which loopback TCP would never "
          "produce). The receiving worker's storage is a stub that records get_event / notify_all_connected; the push itself is "
          "the fan-out checked under C05. Real TCP between processes and uvicorn workers are not in the loop."),
    text=("Notifier.tla models the byte streams symbol-wise with a transport that may deliver any non-empty prefix, and transcribes "
          "the read primitive the code uses; TLC checks C20_Intact, C20_AtMostOnce, C20_SenderOrder, C20_AllDelivered for every "
          "chunking of every stream, one peer drop and one (re)connection (MC_Notifier; with read(32) as found it produced the counterexample that "
          "led to the repair). TLC-simulated behaviours drive the real NotifyServer.handle_notify and NotifyClient.connect over "
          "in-memory streams (symbol-aligned and with byte jitter); the look-ups and pushes of every worker are judged by TLC "
          "against the C20 formulas (Notifier_Trace.tla). Workers may drop and (re)connect (Join): whoever is connected in the end must "
          "have looked up everything announced while it was connected (C20_StayersServed). An end-to-end variant joins two real DBStorage instances on one SQLite "
          "file by the real server and client classes: the receiving worker's subscribers must be pushed each announced event - also with "
          "bytes delivered as soon as they are written while COMMITs are slow, and for an event that is removed and accepted again (a second "
          "announcement). The start-up window of a worker runs over real loopback TCP (the repository's NotifyServer on its port and the "
          "workers' own NotifyClient objects): a worker accepts an event before its delayed notifier connect."),
    technique="TLA+ Notifier.tla model-checked by TLC over all chunkings; TLC-simulated chunkings replayed on the real notifier classes; look-ups validated by TLC")

CHECKS["C03"] = dict(
    cat="exploration", ref="DESIGN.md §5 C03",
    note=("Trusted: the authenticity oracle (hand-written canonical serialisation + hashlib + coincurve BIP-340 verification, "
          "independent of aionostr/rapidjson except that control characters follow the relay's \\u00XX convention and are not used "
          "in C03 universes). The variant classes are a sample of the input language: 18 named mutations (each field changed without "
          "re-signing, re-signed with a wrong / upper-case id, float / string created_at, bool kind, forged / transplanted / short "
          "delegation tags, forgeries under a genuine delegation tag, pubkey / sig in upper-case hex or with an embedded blank), singly and in pairs."),
    text=("Store.tla's C03_OnlyAuthentic (store, writer queue and fan-out history contain only events the oracle calls authentic; events the relay signs itself - add_service_event - are judged by the same oracle: C03_ServiceEventAuthentic) and "
          "Relay.tla's C03_OnlyAuthenticAccepted are model-checked, and evaluated by TLC on the traces of every forged variant "
          "submitted through add_event on both backends, through EVENT frames of web.start_client with a listening subscriber, and "
          "through the bulk-load path proper: the repository's command line (`nostr-relay -c <config> load <dump>`) run as a process on "
          "dumps of the forged / twins / verbatim / malformed universes under three validator configurations (no `validators` key, the "
          "default listed, listed with others) and two dump formats; the store it leaves is reopened and judged by TLC as one "
          "Store!Load(seq) step (LoadPosts: the stores that Submit / WriterStep of the single events can produce). Internal service "
          "events take add_event like any other event (add_service_event signs with the relay's key and calls it); they are exercised by "
          "the role assignments of C14."),
    technique="TLA+ Store.tla / Relay.tla invariants evaluated by TLC on recorded submissions of forged variants through add_event, websocket EVENT and the command-line bulk load (Store!Load); independent authenticity oracle")
CHECKS["C03"]["level_override"] = "exploration"

CHECKS["C10"] = dict(
    cat="model_checking", ref="DESIGN.md §5 C10",
    note=("Trusted: TLC; liblmdb 0.9.31 through the ctypes shim (the B+tree, MVCC and cursor semantics are the real library's); "
          "the decoder of real keys into abstract keys (harness/kvproj.py: by prefix byte, fixed-width fields, the universe's own "
          "name NUL value byte strings; anything else is a garbage key and counts as dangling). Bounds: one 12-event universe, "
          "histories to depth 3/4, with and without writer lag."),
    text=("KvIndex.tla defines the image of a record (primary key, created_at, kind, author, author+kind, one key per indexable "
          "tag with str(value)) and transcribes the writer's put/delete sequence for add / replace / delete inside one transaction "
          "that can abort at every operation; TLC checks C10_Coherent exhaustively (MC_KvIndex). On the real LMDBStorage every key "
          "of the environment is decoded after every writer step and every collection of TLC-generated histories and TLC evaluates "
          "keys = sentinel + union of images of the stored records, reporting dangling, missing and foreign-value entries."),
    technique="TLA+ KvIndex.tla model-checked by TLC; full keyspace dumps after every step of TLC-generated histories validated by TLC (KvIndex_Trace.tla)")
CHECKS["C07"] = dict(
    cat="fault_enumeration", ref="DESIGN.md §5 C07",
    note=("Trusted: TLC; SQLite (WAL, as configured by the relay's own pragmas) and liblmdb as the crash-atomic engines; the fault "
          "points are the shim's put/delete/commit hook (LMDB) and a SQLAlchemy cursor/commit listener (SQL), both harness-side. A "
          "process kill is os._exit(137) in a forked child at the chosen mutation, the parent reopening the files; power loss / "
          "fsync behaviour is not modelled. PostgreSQL is not exercisable here."),
    text=("For every event of every TLC-generated history, every storage mutation of its application (k-th SQL statement incl. "
          "COMMIT, k-th LMDB put/delete incl. commit) gets (i) an injected engine error, after which an independent probe event "
          "must still be applied, and (ii) a process kill followed by reopening. TLC judges every resulting full dump "
          "(KvIndex_Trace.tla): it must be coherent and equal either to the dump before the event or to the dump of the fault-free "
          "run after it (C07_Atomic), and the probe must be present (C07_LaterEventsProceed)."),
    technique="fault enumeration over every storage mutation (engine error in-process, process kill in a forked child + reopen); dumps judged by TLC against KvIndex.tla")

AUTH_NOTE = ("Trusted: TLC; coincurve for signing the AUTH events; the clock is injected (nostr_relay.auth.time). Unpredictability of "
             "secrets.token_hex is not decidable here: only shape, pairwise distinctness (TLC evaluates it over 5 000 / 50 000 issued "
             "challenges) and independence of remote address and frozen clock. Payload classes are a grammar, not all byte strings.")
CHECKS["C15"] = dict(
    cat="model_checking", ref="DESIGN.md §5 C15", note=AUTH_NOTE,
    text=("Auth.tla states when an AUTH payload must be accepted, must be refused, and what is left open (exactly 600 s, a good and a "
          "bad instance of one tag); TLC checks C15_OnlyValidAuth, C15_FailedAuthKeepsIdentity, C15_NoCrossReplay over the whole "
          "payload grammar (MC_Auth). Every single and pairwise deviation from a valid payload (and a seeded sample of the product) "
          "is concretised into a real signed event (also with id and signature lifted from another event of the same key, and carrying a genuine NIP-26 delegation by another key: the identity obtained must be the signer's, "
          "which the recorder projects from the returned token) and sent to Authenticator.authenticate under both relay_urls configurations; "
          "seeded sequences of attempts on two connections with save/query probes run through web.start_client on both backends; "
          "TLC judges every decision and every probe (Auth_Trace.tla)."),
    technique="TLA+ Auth.tla model-checked by TLC; payload grammar concretised and run on the real Authenticator and handler; decisions validated by TLC")
CHECKS["C14"] = dict(
    cat="model_checking", ref="DESIGN.md §5 C14", note=AUTH_NOTE,
    text=("Auth.tla's C14_RoleCheck (an action is performed iff the connection's roles - anonymous if unauthenticated - intersect the "
          "configured roles) is evaluated by TLC on the full can_do matrix (16 configurations x 17 token role sets x 2 actions), on "
          "save (EVENT) and query (REQ) probes through web.start_client on both backends after sequences of AUTH attempts, on role "
          "assignment sequences (C14_RolesReadBack, both backends) and on every delivery under the whitelist output validator, stored "
          "and live (C14_OutputValidated)."),
    technique="TLA+ Auth.tla evaluated by TLC on the exhaustive role matrix and on recorded probes / deliveries of the real handler on both backends")

CHECKS["C16"] = dict(
    cat="model_checking", ref="DESIGN.md §5 C16",
    note=("Trusted: TLC; the clock is injected (nostr_relay.validators.time); proof-of-work ids are really ground (4-bit "
          "requirement, 3/4/5 bits exactly; the extremes 0 and 256 bits are not constructible and not exercised); NIP-05 "
          "verification (nostr_bot) cannot be imported here. The refresh race is decided on the transcription by TLC over all "
          "interleavings, and on the real code by observing every intermediate state of the shared set (each set operation is "
          "atomic under the GIL) rather than by running racing threads."),
    text=("Validators.tla gives each validator its documented bound and the pipeline first-failing semantics; TLC judges every "
          "submission of 80 attribute vectors at / inside / outside every bound through add_event on both backends under "
          "single, full and seeded pipelines: decision, reason and that a refusal leaves no trace; the proof-of-work requirement is swept "
          "(1..9 bits, thorough 1..13, ids ground to r-2..r+1 leading zero bits). DynLists.tla transcribes the "
          "refresher's set mutations; TLC checks C16_NoEmptyWindow / C16_ListExact over all interleavings with readers "
          "(MC_DynLists; the as-found clear/update sequence gave the counterexample behind the repair) and validates the "
          "real ListBuilder.run_once, every mutation observed with is_pubkey_allowed asked about every key, against it. Start-up of "
          "several worker processes: three children forked from a process that imported the application each run the real "
          "web.start_mainprocess_tasks over one database; every worker's own copy of the list must be exact (C16_EveryWorkerHasLists)."),
    technique="TLA+ Validators.tla / DynLists.tla; bound-class events and observed refresh mutations of the real code validated by TLC; DynLists model-checked over all interleavings by TLC, its inductive invariant discharged by Apalache")

CHECKS["C04"] = dict(
    cat="exploration", ref="DESIGN.md §5 C04", note=RELAY_NOTE + (" The string domain (sub ids, contents, tag items) is sampled by palettes "
        "(quotes/backslashes, NUL and control characters, non-BMP and bidi code points) and by numbers / booleans / null / nested arrays / "
        "objects / empty strings / 2^53 / upper-case hex as tag items, not enumerated; GET /e/<id> is driven through the ASGI application "
        "(web.create_app) without a network socket."),
    text=("The recorder parses every frame written by web.start_client with a strict JSON parser and projects it onto the five shapes; an "
          "EVENT frame is accepted only if its subscription id is one the client supplied and its event equals the accepted event in all "
          "seven fields (so id and signature still verify); anything else is a GARBAGE line for which Relay.tla has no action and TLC "
          "reports C04_WellFormedFrame. TLC-simulated schedules run with hostile subscription ids under four universes (plain, quotes, "
          "NUL/control, unicode palettes; events whose tags carry non-string items) on both backends, stored and live delivery. A store-level "
          "pass submits every event of the hostile universes (five palettes; bare / empty / repeated tag values, upper-case hex items, "
          "whitespace, composed / decomposed characters) on both backends and looks each up through storage.get_event and HTTP GET /e/<id> "
          "(lower- and upper-case id) and through a REQ by ids: whatever is served, and whatever the raw store holds, must equal the "
          "accepted event in all seven fields (Store!A_C04_LookupVerbatim, Garbage)."),
    technique="TLA+ Relay.tla trace validation by TLC with strict frame projection; TLA+ Store.tla look-up formulas evaluated by TLC on get_event / GET /e/<id> / REQ answers; palette-driven exploration of ids, contents and tag items")
CHECKS["C04"]["level_override"] = "exploration"

CHECKS["C19"] = dict(
    cat="exploration", ref="DESIGN.md §5 C19", note=RELAY_NOTE + (" The junk language is a grammar of typed mutations, sampled by seed in the "
        "quick tier and complete (589 frames + 90 correctly signed events with hostile tags) in the thorough tier; frames go straight to ws_recv, so limits the websocket server "
        "itself imposes (message size) are not in the loop."),
    text=("Junk.tla states the contract (a junk frame is ignored, answered, or closes that one connection cleanly; the handler never "
          "raises; a connection kept open keeps answering; others are unaffected; on end all subscriptions are dropped and all tasks "
          "finish). Each frame of the grammar is sent on one connection of web.start_client followed by REQ and EVENT probes (the EVENT probe "
          "must be accepted), interleaved with a well-behaved connection holding kind- and tag-filter subscriptions whose transcript is compared with the same run without the junk, on both backends; TLC judges "
          "the observations (Junk_Trace.tla). The grammar also contains well-formed commands pipelined in a hostile order (a subscription id "
          "re-used while its query runs, CLOSE / re-REQ bursts, duplicates) and peers that stop reading while answers pile up for them and "
          "then hang up (answers queued by the handler, by query tasks, by notify tasks), and bursts: the same hostile, correctly signed event 6-12 "
          "times and runs of different ones before the probes (what one such event costs must not add up), odd subscription ids (the empty "
          "string, \"0\", a blank, 300 characters), and a subscription closed or replaced a dozen times while its stored query is held in the "
          "middle of its work (what a cancelled query holds must be given back)."),
    technique="TLA+ Junk.tla contract evaluated by TLC on recorded handler runs over a grammar of typed frame mutations; differential run for the second connection")

CHECKS["C11"] = dict(
    cat="model_checking", ref="DESIGN.md §5 C11", note=QUERY_NOTE,
    text=("Pairs_Trace.tla: for seeded splits S < S+N of a 24-event universe that contains byte-order neighbours of everything the "
          "filters ask for, every filter of the grammar is answered over both stores through the REQ path on both backends; TLC "
          "evaluates, per line, the precondition (no event of N matches the filter even loosely; g narrows f; the parts are the "
          "single-value restrictions of one multi-valued condition) and the conclusion (same answer set; subset; union) - the harness "
          "decides nothing about matching. Multi-value ids / authors lists are also sent in every lower / upper-case spelling of their hex digits."),
    technique="TLA+ Pairs_Trace.tla (Unaffected / Monotone / UnionOfSingles over Nostr.tla Matches) evaluated by TLC on paired answers of the real REQ path")

NOT_YET = {}


def main():
    props = [json.loads(l) for l in open(os.path.join(VERIF, "properties.jsonl"))]
    checks = []
    for p in props:
        pid = p["id"]
        if pid not in CHECKS:
            continue
        c = CHECKS[pid]
        checks.append({
            "property_id": pid,
            "quick_cmd": "./check %s --tier quick" % pid,
            "thorough_cmd": "./check %s --tier thorough" % pid,
            "evidence_file": "/verif/evidence/%s.json" % pid,
            "replay_cmd_template": "./check %s --replay {path}" % pid,
            "engine": "tlc+harness",
            "level_claimed": {"category": c["cat"], "text": c["text"], "design_ref": c["ref"]},
            "level_note": c.get("note", STORE_NOTE),
            "technique": c["technique"],
        })
    na = []
    for p in props:
        if p["id"] not in CHECKS:
            na.append({"property_id": p["id"], "reason": NOT_YET.get(p["id"], "check not built yet in this round (planned in DESIGN.md §5); not claimed until it runs")})
    man = {
        "version": 1,
        "setup_cmd": "./check setup",
        "hooks": {
            "guard": "NOSTR_RELAY_VERIF",
            "enable": "no source hooks: observation is harness-side (wrappers around storage methods, injected clocks, the ctypes lmdb shim on the harness PYTHONPATH); checks import nostr_relay from /repo's working tree",
            "baseline_off_cmd": BASELINE_OFF,
            "source_commits": [],
            "add_only": True,
        },
        "engines": [
            {"name": "tlc+harness", "path": "/verif/check", "serves_properties": sorted(CHECKS),
             "kind_free_text": "TLA+ specifications in /verif/spec checked by TLC; TLC-generated behaviours replayed on the real code by /verif/harness; recorded traces validated by TLC"},
        ],
        "checks": checks,
        "not_applicable": na,
        "notes": "See DESIGN.md. Genuine defects repaired in /repo are recorded in known_findings.json (status fixed); open findings there are matched by signature.",
    }
    with open(os.path.join(VERIF, "MANIFEST.json"), "w") as fp:
        json.dump(man, fp, indent=1)
    print("MANIFEST.json: %d checks, %d not_applicable" % (len(checks), len(na)))


if __name__ == "__main__":
    main()
