"""
Shared plumbing of the verification harness: paths, relay configuration, keys,
event construction with an independent authenticity oracle, storage factories,
store dumps.  No property logic lives here: verdicts are TLC's.
"""
import asyncio
import hashlib
import json
import logging
import os
import shutil
import sys
import tempfile

VERIF = os.path.dirname(os.path.dirname(os.path.abspath(__file__)))
REPO = os.environ.get("VERIF_REPO", "/repo")
GUARD = "NOSTR_RELAY_VERIF"

for p in (os.path.join(VERIF, "shim"), REPO):
    if p not in sys.path:
        sys.path.insert(0, p)
os.environ.setdefault(GUARD, "1")

SCRATCH_BASE = "/dev/shm" if os.path.isdir("/dev/shm") and os.access("/dev/shm", os.W_OK) else tempfile.gettempdir()

# secret keys of the abstract authors; "S" is the relay's service key
SECRETS = {
    "A": "f6d7c79924aa815d0d408bc28c1a23af208209476c1b7691df96f7d7b72a2753",
    "B": "8f50290eaa19f3cefc831270f3c2b5ddd3f26d11b0b72bc957067d6811bc618d",
    "C": "1b9d27c1f9cf1dc1b8e8a1b2f9c1d4a3b5e6f7a8c9d0e1f2a3b4c5d6e7f8a9b1",
    "D": "2c8e38d2e0d02ed2c9f9b2c3e0d2e5b4c6f7e8b9d0e1f2a3b4c5d6e7f8a9b0c2",
    "S": "5a1d5b6c7d8e9fa0b1c2d3e4f5a6b7c8d9e0f1a2b3c4d5e6f7a8b9c0d1e2f3a4",
}
T0 = 1_700_000_000  # grid origin for abstract timestamps: ts(g) = T0 + 10*g


def ts(g):
    return T0 + 10 * g


_PUB = {}


def pubkey(name):
    if name not in _PUB:
        from coincurve import PrivateKey

        _PUB[name] = PrivateKey(bytes.fromhex(SECRETS[name])).public_key_xonly.format().hex()
    return _PUB[name]


_SHORT = {'"': '\\"', "\\": "\\\\", "\n": "\\n", "\r": "\\r", "\t": "\\t", "\b": "\\b", "\f": "\\f"}


def _esc(s):
    out = ['"']
    for ch in s:
        if ch in _SHORT:
            out.append(_SHORT[ch])
        elif ord(ch) < 0x20:
            # NIP-01 names no escape for the other control characters; the relay's verifier
            # (aionostr + rapidjson) writes \u00XX with upper-case hex digits, so that is what
            # "canonical" means for them here (C03 universes avoid such characters altogether)
            out.append("\\u%04X" % ord(ch))
        else:
            out.append(ch)
    out.append('"')
    return "".join(out)


def strict_json(text):
    """RFC 8259 parse: Python's extensions (NaN, Infinity) are refused"""
    def _no(c):
        raise ValueError("not JSON: " + c)
    return json.loads(text, parse_constant=_no)


def _dump(v):
    if isinstance(v, str):
        return _esc(v)
    if isinstance(v, (list, tuple)):
        return "[" + ",".join(_dump(x) for x in v) + "]"
    return json.dumps(v, separators=(",", ":"), ensure_ascii=False)


def canonical(pub, created_at, kind, tags, content):
    """NIP-01 canonical serialisation, written out by hand (independent of aionostr / rapidjson)."""
    return _dump([0, pub, created_at, kind, tags, content]).encode("utf8")


def compute_id(pub, created_at, kind, tags, content):
    return hashlib.sha256(canonical(pub, created_at, kind, tags, content)).hexdigest()


def sign_hex(secret_name, msg32_hex):
    from coincurve import PrivateKey

    return PrivateKey(bytes.fromhex(SECRETS[secret_name])).sign_schnorr(bytes.fromhex(msg32_hex), None).hex()


def mk_event(author, kind=1, created_at=None, tags=None, content=""):
    """A correctly signed event as a JSON object (dict)."""
    tags = [] if tags is None else tags
    created_at = ts(0) if created_at is None else created_at
    pub = pubkey(author)
    eid = compute_id(pub, created_at, kind, tags, content)
    return {
        "id": eid,
        "pubkey": pub,
        "created_at": created_at,
        "kind": kind,
        "tags": tags,
        "content": content,
        "sig": sign_hex(author, eid),
    }


def delegation_tag(delegator, delegatee, conditions="kind=1"):
    """NIP-26 delegation tag: delegator authorises delegatee's pubkey."""
    tok = ":".join(["nostr", "delegation", pubkey(delegatee), conditions]).encode("utf8")
    sig = sign_hex(delegator, hashlib.sha256(tok).hexdigest())
    return ["delegation", pubkey(delegator), conditions, sig]


def _is_hex(s, n):
    return isinstance(s, str) and len(s) == n and all(c in "0123456789abcdef" for c in s)


def is_authentic(ev):
    """
    Independent oracle for C03: id is the lowercase sha256 of the canonical
    serialisation, sig is a valid BIP-340 signature of the id under pubkey,
    every delegation tag is validly signed by the named delegator.
    """
    from coincurve import PublicKeyXOnly

    try:
        if not isinstance(ev, dict):
            return False
        pub, cat, kind, tags, content = ev["pubkey"], ev["created_at"], ev["kind"], ev["tags"], ev["content"]
        if type(cat) is not int or type(kind) is not int or not isinstance(content, str):
            return False
        if not isinstance(tags, list) or not all(isinstance(t, list) for t in tags):
            return False
        if not (_is_hex(pub, 64) and _is_hex(ev["id"], 64) and _is_hex(ev["sig"], 128)):
            return False
        if compute_id(pub, cat, kind, tags, content) != ev["id"]:
            return False
        if not PublicKeyXOnly(bytes.fromhex(pub)).verify(bytes.fromhex(ev["sig"]), bytes.fromhex(ev["id"])):
            return False
        for t in tags:
            if t and t[0] == "delegation":
                if len(t) != 4 or not all(isinstance(x, str) for x in t):
                    return False
                tok = ":".join(["nostr", "delegation", pub, t[2]]).encode("utf8")
                if not PublicKeyXOnly(bytes.fromhex(t[1])).verify(bytes.fromhex(t[3]), hashlib.sha256(tok).digest()):
                    return False
        return True
    except Exception:
        return False


# --------------------------------------------------------------------------------------
# configuration


def load_config(**overrides):
    """
    Load a harness configuration into nostr_relay.config.Config *before*
    nostr_relay.storage.* is imported (max_limit etc. are captured at import).
    """
    import yaml
    from nostr_relay.config import Config

    if "nostr_relay.storage.base" in sys.modules and "max_limit" in overrides:
        raise RuntimeError("load_config(max_limit=...) must precede the import of nostr_relay.storage")
    conf = {
        "DEBUG": False,
        "storage": {"sqlalchemy.url": "sqlite+aiosqlite:///:memory:"},
        "logging": {"version": 1, "disable_existing_loggers": False},
        "gunicorn": {"bind": "127.0.0.1:6969"},
        "garbage_collector": {},
        "authentication": {},
    }
    conf.update(overrides)
    fd, path = tempfile.mkstemp(suffix=".yaml", dir=SCRATCH_BASE)
    with os.fdopen(fd, "w") as fp:
        yaml.safe_dump(conf, fp)
    try:
        Config.load(path, reload=True)
    finally:
        os.unlink(path)
    return Config


def quiet_logging(level=logging.CRITICAL):
    logging.disable(level)


class Scratch:
    """scratch directory under /dev/shm (or tmp), removed on exit"""

    def __init__(self, prefix="verif-"):
        self.prefix = prefix
        self.path = None

    def __enter__(self):
        self.path = tempfile.mkdtemp(prefix=self.prefix, dir=SCRATCH_BASE)
        return self.path

    def __exit__(self, *a):
        shutil.rmtree(self.path, ignore_errors=True)


# --------------------------------------------------------------------------------------
# storage factories


async def make_sql_storage(url="sqlite+aiosqlite:///:memory:", **options):
    from nostr_relay.storage import get_metadata
    from nostr_relay.storage.db import DBStorage

    opts = {"sqlalchemy.url": url}
    opts.update(options)
    st = DBStorage(opts)
    await st.setup()
    async with st.db.begin() as conn:
        await conn.run_sync(get_metadata().create_all)
    return st


async def make_lmdb_storage(path, **options):
    from nostr_relay.storage.kv import LMDBStorage

    opts = {"class": "nostr_relay.storage.kv.LMDBStorage", "path": path, "map_size": 64 * 1024 * 1024,
            "sync": False, "metasync": False, "pool_size": 2}
    opts.update(options)
    st = LMDBStorage(opts)
    await st.setup()
    return st


async def lmdb_drain(st):
    """wait until the real writer thread is idle (same criterion as wait_for_writer, without the sleeps)"""
    wt = st.writer_thread
    while True:
        if st.writer_queue.empty() and not wt.processing:
            # processing flips after qget returns: re-check after a yield
            await asyncio.sleep(0.001)
            if st.writer_queue.empty() and not wt.processing:
                return
        else:
            await asyncio.sleep(0.0005)


# --------------------------------------------------------------------------------------
# store dumps (projection of the durable state)


async def sql_dump_ids(st):
    import sqlalchemy as sa

    async with st.db.connect() as conn:
        rows = (await conn.execute(sa.text("SELECT id FROM events"))).fetchall()
    return sorted(r[0].hex() for r in rows)


async def sql_dump_tags(st):
    import sqlalchemy as sa

    async with st.db.connect() as conn:
        rows = (await conn.execute(sa.text("SELECT id, name, value FROM tags"))).fetchall()
    return sorted((r[0].hex(), r[1], r[2]) for r in rows)


def lmdb_dump_keys(st_or_env):
    env = getattr(st_or_env, "db", st_or_env)
    out = []
    with env.begin() as txn:
        c = txn.cursor()
        for k, v in c.iternext():
            out.append((bytes(k), bytes(v)))
        c.close()
    return out


def lmdb_dump_ids(st_or_env):
    return sorted(k[1:].hex() for k, _ in lmdb_dump_keys(st_or_env) if k[:1] == b"\x00" and len(k) == 33)


def run(coro):
    return asyncio.run(coro)
