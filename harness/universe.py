"""
Universe of abstract events and its concretisation into real signed events.

An abstract event description is a dict
    {"sym": "p1", "pk": "A", "kind": 30000, "ts": 10, "tags": [["d", "a"]], "content": "c1"}
ts is an offset from common.T0.  Tag values are symbols; `conc_value` maps a
symbol to the concrete string (event symbol -> its 64-hex id, author symbol ->
pubkey, tNN -> str(T0+NN) for expiration values, anything else through the
palette, injectively).  The TLA+ side only ever sees the symbols.
"""
import re

from . import common as C


def pal_plain(sym):
    return sym


def pal_quotes(sym):
    # quote characters, a backslash, and a colon followed by a word and preceded by a backslash (":name" is what a textual
    # SQL statement takes for a bind parameter, "\\:" what it takes for an escaped colon)
    return "%s'\"\\%s :%s \\:%s" % (sym, sym, sym, sym)


def pal_sql(sym):
    return "%s') OR 1=1 --%s" % (sym, sym)


def pal_py(sym):
    return "{%s}%%s{0}'+__import__('os').getcwd()+'%s" % (sym, sym)


def pal_nul(sym):
    return "%s\x00\x01\x1f%s" % (sym, sym)


def pal_unicode(sym):
    return "%sä‮\U0001f600́%s" % (sym, sym)


def pal_bslash(sym):
    # backslashes without any quote or control character (a serialiser that looks for the latter only must still escape these);
    # some of them begin what would be a legal JSON escape
    return "%s\\_(%s)_/\\n\\u0041 C:\\dir\\" % (sym, sym)


def pal_long(sym):
    return sym + "x" * 300 + sym


PALETTES = {
    "plain": pal_plain,
    "quotes": pal_quotes,
    "sql": pal_sql,
    "py": pal_py,
    "nul": pal_nul,
    "unicode": pal_unicode,
    "long": pal_long,
    "bslash": pal_bslash,
}

UNKNOWN_ID = "zz"  # symbol of a well-formed id that no event has
UNKNOWN_ID_HEX = "ab" * 32


class Universe:
    def __init__(self, descs, palette="plain", symtab=None, authors=("A", "B", "C", "D", "S")):
        self.descs = {d["sym"]: dict(d) for d in descs}
        self.order = [d["sym"] for d in descs]
        self.palette_name = palette
        self.palette = PALETTES[palette] if isinstance(palette, str) else palette
        self.symtab = dict(symtab or {})
        self.symtab.setdefault(UNKNOWN_ID, UNKNOWN_ID_HEX)
        self.authors = authors
        self.conc = {}
        self.abs = {}
        self._build()
        self.sym_of_id = {}
        self.syms_of_id = {}
        for s in self.order:
            e = self.conc[s]
            self.sym_of_id.setdefault(e["id"], s)          # the first (listed) symbol wins for id-only look-ups
            self.syms_of_id.setdefault(e["id"], []).append(s)
        self.rev = {}
        for s in list(self.symtab):
            try:
                self.rev[self.symtab[s]] = s
            except TypeError:
                pass        # unhashable concrete values (lists, objects as tag items) have no reverse mapping

    # ---- symbols -> concrete
    def conc_value(self, sym, name=None):
        if sym in self.symtab:
            return self.symtab[sym]
        if sym in self.conc:
            v = self.conc[sym]["id"]
        elif sym in self.authors:
            v = C.pubkey(sym)
        elif re.fullmatch(r"t-?\d+", sym):
            v = str(C.T0 + int(sym[1:]))
        elif sym == "":
            v = ""
        else:
            v = self.palette(sym)
        self.symtab[sym] = v
        if hasattr(self, "rev"):
            try:
                self.rev[v] = sym
            except TypeError:
                pass
        return v

    def abs_value(self, concrete):
        return self.rev.get(concrete)

    def _conc_tag(self, tag, pk):
        if tag and tag[0] == "delegation" and len(tag) == 2:
            return C.delegation_tag(tag[1], pk)
        out = []
        for k, item in enumerate(tag):
            if k == 0:
                out.append(item if not item.startswith("@") else self.conc_value(item[1:]))
            else:
                out.append(self.conc_value(item, tag[0]))
        return out

    def _build(self):
        pending = list(self.order)
        progress = True
        while pending and progress:
            progress = False
            for sym in list(pending):
                d = self.descs[sym]
                refs = [v for t in d.get("tags", []) for v in t[1:] if v in self.descs and v != sym]
                if d.get("twin_of"):
                    refs.append(d["twin_of"])
                if any(r not in self.conc for r in refs):
                    continue
                self._build_one(sym, d)
                pending.remove(sym)
                progress = True
        if pending:
            raise ValueError("cyclic event references: %s" % pending)

    def _build_one(self, sym, d):
        if d.get("twin_of"):
            # the very same event as another symbol (same id), then mutated (e.g. its signature)
            import copy

            ev = copy.deepcopy(self.conc[d["twin_of"]])
            ev = d["mutate"](ev, self)
            self.conc[sym] = ev
            self.abs[sym] = dict(self.abs[d["twin_of"]], auth=C.is_authentic(ev))
            return
        tags = [self._conc_tag(t, d["pk"]) for t in d.get("tags", [])]
        content = self.palette(d.get("content", "c-" + sym)) if d.get("content", None) != "" else ""
        created_at = d.get("created_at", C.T0 + d["ts"])
        kind = d.get("kind_conc", d["kind"])
        ev = C.mk_event(d["pk"], kind=kind, created_at=created_at, tags=tags, content=content)
        if d.get("id_prefix"):
            # grind a content nonce until the id starts with the wanted hex prefix (byte-order hazards in index keys)
            n = 0
            while not ev["id"].startswith(d["id_prefix"]):
                n += 1
                ev = C.mk_event(d["pk"], kind=kind, created_at=created_at, tags=tags, content=content + "#%d" % n)
        mut = d.get("mutate")
        if mut:
            ev = mut(ev, self)
        self.conc[sym] = ev
        exp = []
        for t in d.get("tags", []):
            if len(t) >= 2 and t[0] == "expiration":
                m = re.fullmatch(r"t(-?\d+)", t[1])
                exp = ["n", int(m.group(1))] if m else ["bad"]
                break
        if "exp" in d:
            exp = d["exp"]
        self.abs[sym] = {
            "pk": d["pk"],
            "kind": d["kind"],
            "ts": d["ts"],
            "tags": [list(t) for t in d.get("tags", [])],
            "auth": C.is_authentic(ev),
            "exp": exp,
        }
        if d.get("dub"):
            self.abs[sym]["dub"] = True

    # ---- concrete -> symbols
    def sym_event(self, ev):
        """symbol of a served event iff it equals the accepted event in all seven fields"""
        if not isinstance(ev, dict):
            ev = {"id": ev.id, "pubkey": ev.pubkey, "created_at": ev.created_at, "kind": ev.kind,
                  "tags": [list(t) for t in ev.tags], "content": ev.content, "sig": ev.sig}
        for sym in self.syms_of_id.get(ev.get("id"), []):
            ref = self.conc[sym]
            # (tags are compared as canonical JSON text: in Python ["n", 1] == ["n", True] == ["n", 1.0])
            if all(ev.get(k) == ref[k] and type(ev.get(k)) is type(ref[k]) for k in ("id", "pubkey", "created_at", "kind", "content", "sig")) \
                    and C._dump([list(t) for t in ev.get("tags", [])]) == C._dump(ref["tags"]):
                return sym
        return None

    def sym_id(self, hexid):
        return self.sym_of_id.get(hexid, "?" + str(hexid)[:16])

    # ---- TLA+
    def one_char_names(self):
        names = set()
        for a in self.abs.values():
            for t in a["tags"]:
                if t and len(self._conc_name(t[0])) == 1:
                    names.add(t[0])
        return names

    def _conc_name(self, n):
        return self.conc_value(n[1:]) if n.startswith("@") else n

    def tla_universe(self):
        return {s: self.abs[s] for s in self.order}

    # ---- filters
    def conc_filter(self, f):
        out = {}
        if "ids" in f:
            out["ids"] = [self.conc_value(s) for s in f["ids"]]
        if "authors" in f:
            out["authors"] = [self.conc_value(s) for s in f["authors"]]
        if "kinds" in f:
            out["kinds"] = list(f["kinds"])
        for name, vals in f.get("tags", {}).items():
            out["#" + self._conc_name(name)] = [self.conc_value(v, name) for v in vals]
        if "since" in f:
            out["since"] = C.T0 + f["since"]
        if "until" in f:
            out["until"] = C.T0 + f["until"]
        if "limit" in f:
            out["limit"] = f["limit"]
        return out


def abs_filter_tla(f):
    """abstract filter (python dict) -> the record Nostr.tla expects"""
    return {
        "ids": [set(f["ids"])] if "ids" in f else [],
        "authors": [set(f["authors"])] if "authors" in f else [],
        "kinds": [set(f["kinds"])] if "kinds" in f else [],
        "tags": set((n, frozenset(v)) for n, v in f.get("tags", {}).items()),
        "since": [f["since"]] if "since" in f else [],
        "until": [f["until"]] if "until" in f else [],
        "limit": [f["limit"]] if "limit" in f else [],
    }
