"""
Driver and recorder for the connection level: runs web.start_client (the real
handler) for several scripted connections against a real storage object and
records a totally ordered log of everything observable from outside:

  Conn, Req, Close, Submit, Accept, FanOut, Notify, QPut, Send, Disc, Idle

All wrappers are installed by the harness process on the storage instance /
the BaseSubscription class / the captured asyncio.Queue objects; the
repository is not touched.  The event loop is single-threaded, so the order of
the log is the real order of the steps.
"""
import asyncio
import json

from . import common as C

BAD_FILTER = {"kinds": "not-a-list"}


class Disconnected(Exception):
    pass


def project_frame(text, uni, sid_rev):
    """frame text -> abstract record; anything else is GARBAGE"""
    try:
        msg = json.loads(text)
    except Exception:
        return {"t": "GARBAGE", "why": "unparsable"}
    if not isinstance(msg, list) or not msg or not isinstance(msg[0], str):
        return {"t": "GARBAGE", "why": "shape"}
    kind = msg[0]
    if kind == "EVENT" and len(msg) == 3 and isinstance(msg[1], str) and isinstance(msg[2], dict):
        sym = uni.sym_event(msg[2])
        if sym is None or msg[1] not in sid_rev:
            return {"t": "GARBAGE", "why": "event-not-verbatim" if sym is None else "unknown-sub-id"}
        return {"t": "EVENT", "sid": sid_rev[msg[1]], "e": sym}
    if kind == "EOSE" and len(msg) == 2 and isinstance(msg[1], str):
        if msg[1] not in sid_rev:
            return {"t": "GARBAGE", "why": "unknown-sub-id"}
        return {"t": "EOSE", "sid": sid_rev[msg[1]]}
    if kind == "OK" and len(msg) == 4 and isinstance(msg[1], str) and isinstance(msg[2], bool) and isinstance(msg[3], str):
        return {"t": "OK", "e": uni.sym_of_id.get(msg[1], "?" if msg[1] == "" else "??" + msg[1][:12]), "ok": msg[2], "reason": msg[3]}
    if kind == "NOTICE" and len(msg) == 2 and isinstance(msg[1], str):
        return {"t": "NOTICE", "text": msg[1]}
    if kind == "AUTH" and len(msg) == 2 and isinstance(msg[1], str):
        return {"t": "AUTH", "challenge": msg[1]}
    return {"t": "GARBAGE", "why": "shape"}


class Recorder:
    def __init__(self, storage, uni, nconns, sid_map, same_addr=False):
        self.st = storage
        self.uni = uni
        self.log = []
        self.sid_map = sid_map                      # sid symbol -> concrete string
        self.sid_rev = {v: k for k, v in sid_map.items()}
        self.same_addr = same_addr
        self.addr = {c: ("10.0.0.1" if same_addr else "10.0.0.%d" % (c + 1)) for c in range(nconns)}
        self.conn_of_addr = {v: c for c, v in self.addr.items()}
        self.cid_conn = {}       # id(ClientID object) -> (weak reference, c)
        self.task_conn = {}      # handler task -> c
        self.gens = {}           # id(sub object) -> gen
        self.keep = []           # keep sub objects alive so ids are not reused
        self.task_gen = {}       # query task -> (c, sid, gen)
        self.queues = {}         # id(queue) -> c
        self.current = {}        # c -> abstract message being handled
        self.errors = []
        self._install()

    # ---- helpers
    def conn_of(self, client_id):
        """which connection a ClientID object belongs to.  With distinct remote addresses the address says it; when all
        connections share one address (and the random token is pinned, `same_addr`) the object is recognised by identity: it
        is first seen inside the handler task of its own connection."""
        if not self.same_addr:
            return self.conn_of_addr.get(str(client_id).rsplit("-", 1)[0], -1)
        import weakref

        ent = self.cid_conn.get(id(client_id))
        if ent is not None and ent[0]() is client_id:
            return ent[1]
        c = self.task_conn.get(asyncio.current_task(), -1)
        try:
            self.cid_conn[id(client_id)] = (weakref.ref(client_id), c)
        except TypeError:
            pass
        return c

    def gen_of(self, sub):
        g = self.gens.get(id(sub))
        if g is None:
            g = len(self.gens) + 1
            self.gens[id(sub)] = g
            self.keep.append(sub)
        return g

    def sid_sym(self, sid):
        return self.sid_rev.get(sid, "?" + str(sid)[:12])

    def registry(self):
        out = {}
        for cid, subs in list(self.st.clients.items()):
            c = self.conn_of(cid)
            out[c] = {self.sid_sym(s): self.gen_of(sub) for s, sub in subs.items()}
        return out

    def emit(self, **line):
        self.log.append(line)

    # ---- wrappers
    def _install(self):
        st = self.st
        rec = self
        from nostr_relay.storage.base import BaseSubscription

        orig_subscribe = st.subscribe
        orig_cls = st.subscription_class
        rec.new_subs = []

        def subscription_factory(*a, **k):
            sub = orig_cls(*a, **k)
            rec.new_subs.append(sub)
            return sub

        st.subscription_class = subscription_factory
        orig_unsubscribe = st.unsubscribe
        orig_add = st.add_event
        orig_fan = st.notify_all_connected

        async def subscribe(client_id, sub_id, filters, queue, **kw):
            c = rec.conn_of(client_id)
            rec._wrap_queue(queue, c)
            rec.new_subs = []
            qlen = queue.qsize()
            err = None
            try:
                return await orig_subscribe(client_id, sub_id, filters, queue, **kw)
            except BaseException as e:
                err = "%s: %s" % (type(e).__name__, e)
                raise
            finally:
                after = rec.registry().get(c, {})
                sid = rec.sid_sym(sub_id)
                # the Subscription object this call created and started (seen through the wrapped subscription_class,
                # not through storage.clients: the registry is what is being checked)
                started = [sb for sb in rec.new_subs if getattr(sb, "query_task", None) is not None]
                rec.new_subs = []
                gen = 0
                if started:
                    sub = started[-1]
                    gen = rec.gen_of(sub)
                    rec.task_gen[sub.query_task] = (c, sid, gen)
                if err is None:
                    out = "started" if gen else ("eose" if queue.qsize() > qlen else "nothing")
                elif "too many" in err:
                    out = "toomany"
                elif "restricted" in err:
                    out = "restricted"
                else:
                    out = "error"
                cur = rec.current.get(c, {})
                rec.emit(a="Req", c=c, sid=sid, fs=cur.get("fs", []), out=out, gen=gen, reg=after, err=err or "")

        async def unsubscribe(client_id, sub_id=None):
            c = rec.conn_of(client_id)
            try:
                return await orig_unsubscribe(client_id, sub_id)
            finally:
                if sub_id is None:
                    rec.emit(a="Drop", c=c, reg=rec.registry().get(c, {}))
                elif c not in rec.in_subscribe:
                    rec.emit(a="Close", c=c, sid=rec.sid_sym(sub_id), reg=rec.registry().get(c, {}))

        rec.in_subscribe = set()

        async def subscribe_outer(client_id, sub_id, filters, queue, **kw):
            c = rec.conn_of(client_id)
            rec.in_subscribe.add(c)
            try:
                return await subscribe(client_id, sub_id, filters, queue, **kw)
            finally:
                rec.in_subscribe.discard(c)

        async def add_event(event_json, auth_token=None):
            sym = rec.uni.sym_of_id.get(event_json.get("id") if isinstance(event_json, dict) else None, "?")
            c = rec.handler_conn()
            rec.emit(a="Submit", c=c, e=sym)
            ok = None
            err = ""
            try:
                ev, changed = await orig_add(event_json, auth_token=auth_token)
                ok = bool(changed)
                return ev, changed
            except BaseException as e:
                ok = False
                err = "%s: %s" % (type(e).__name__, e)
                raise
            finally:
                rec.emit(a="Accept", c=c, e=sym, ok=ok, err=err)

        rec.rounds = 0
        rec.creating = {}       # handler task -> (round, list of targets) of the fan-out it is executing

        async def notify_all_connected(event):
            sym = rec.uni.sym_of_id.get(event.id, "?" + event.id[:12])
            task = asyncio.current_task()
            rnd = [0]           # numbered when the tasks have been created (= when the FanOut line is emitted)
            outer = rec.creating.get(task)
            rec.creating[task] = (rnd, [])
            try:
                return await orig_fan(event)
            finally:
                targets = [[c, sid, gen] for (c, sid, gen) in rec.creating[task][1]]
                if outer is None:
                    del rec.creating[task]
                else:
                    rec.creating[task] = outer
                rec.rounds += 1
                rnd[0] = rec.rounds
                rec.emit(a="FanOut", c=rec.handler_conn(), e=sym, r=rnd[0], targets=targets, reg=rec.registry())

        orig_notify = BaseSubscription.notify

        def notify(sub, event):
            c, sid, gen = rec.conn_of(sub.client_id), rec.sid_sym(sub.sub_id), rec.gen_of(sub)
            cur = rec.creating.get(asyncio.current_task())
            rnd = [0]
            if cur is not None:
                rnd = cur[0]
                cur[1].append((c, sid, gen))
            sym = rec.uni.sym_of_id.get(event.id, "?" + event.id[:12])

            async def run():
                q = sub.queue
                before = q.qsize() if q is not None else 0
                rec.notifying = True
                try:
                    return await orig_notify(sub, event)
                finally:
                    rec.notifying = False
                    put = (q.qsize() if q is not None else 0) > before
                    rec.emit(a="Notify", c=c, sid=sid, gen=gen, e=sym, r=rnd[0], put=put)

            return run()

        rec.notifying = False
        rec._orig_notify = orig_notify
        BaseSubscription.notify = notify
        st.subscribe = subscribe_outer
        st.unsubscribe = unsubscribe
        st.add_event = add_event
        st.notify_all_connected = notify_all_connected

    def uninstall(self):
        from nostr_relay.storage.base import BaseSubscription

        BaseSubscription.notify = self._orig_notify

    def handler_conn(self):
        t = asyncio.current_task()
        return getattr(t, "_verif_conn", -1)

    def _wrap_queue(self, queue, c):
        if id(queue) in self.queues:
            return
        self.queues[id(queue)] = c
        self.keep.append(queue)
        rec = self
        orig_put = queue.put

        async def put(item):
            sub_id, ev = item
            if not rec.notifying:
                t = asyncio.current_task()
                c2, sid, gen = rec.task_gen.get(t, (c, rec.sid_sym(sub_id), 0))
                sym = "EOSE" if ev is None else (rec.uni.sym_event(ev) or "?" + str(getattr(ev, "id", ""))[:12])
                rec.emit(a="QPut", c=c2, sid=sid, gen=gen, item=sym, by="query" if t in rec.task_gen else "handler")
            return await orig_put(item)

        queue.put = put


class Conn:
    def __init__(self, c, rec):
        self.c = c
        self.rec = rec
        self.inbox = asyncio.Queue()
        self.waiting = False
        self.closed_code = None
        self.task = None
        self.result = None
        # a peer that does not read: ws_send blocks while the gate is closed; a peer that has gone away: ws_send raises
        self.gate = asyncio.Event()
        self.gate.set()
        self.blocked = False
        self.gone = False

    async def ws_recv(self):
        self.waiting = True
        try:
            kind, payload, abstract = await self.inbox.get()
        finally:
            self.waiting = False
        if kind == "disc":
            import falcon

            raise falcon.WebSocketDisconnected()
        if kind == "timeout":
            # nothing arrived within message_timeout: what `async with timeout(message_timeout)` around ws_recv raises
            raise asyncio.TimeoutError()
        self.rec.current[self.c] = abstract or {}
        self.rec.emit(a="Recv", c=self.c, m=(abstract or {}).get("m", "RAW"))
        return payload

    async def ws_send(self, text):
        if not self.gate.is_set():
            self.blocked = True
            try:
                await self.gate.wait()
            finally:
                self.blocked = False
        if self.gone:
            import falcon

            raise falcon.WebSocketDisconnected()
        fr = project_frame(text, self.rec.uni, self.rec.sid_rev)
        self.rec.emit(a="Send", c=self.c, f=fr, raw=text if fr["t"] == "GARBAGE" else "")

    async def ws_close(self, code=1000):
        self.closed_code = code
        self.rec.emit(a="WsClose", c=self.c, code=code)


class NullLog:
    def __getattr__(self, name):
        return lambda *a, **k: None


def _is_background(task):
    coro = task.get_coro()
    name = getattr(coro, "__qualname__", "")
    return name.startswith("Periodic.") or name.startswith("StatsCollector") or "analysis" in name


async def run_connections(st, uni, nconns, schedule, sid_map, rate_limiter=None, idle_timeout=8.0, same_addr=False):
    """
    schedule: list of steps
       ("open", c)                       start the handler of connection c
       ("msg", c, abstract_message)      put the frame into c's inbox; abstract_message = dict(m=..., ...)
       ("hold",) / ("release",)          stored queries do not get their rows in between (they stay in the middle of their work)
       ("defer", c, abstract_message)    the same, but the frame arrives when the storage layer next suspends a fan-out
       ("disc", c)                       the peer goes away
       ("timeout", c)                    the peer stays silent until the relay's message timeout fires (the relay closes)
       ("stall", c) / ("unstall", c)     the peer stops / resumes reading: ws_send blocks meanwhile
       ("idle",)                         run until nothing can make progress without the environment
       ("yield", k)                      let the loop run k iterations
       ("do", async fn(recorder))        an operator action between messages (awaited in the driver's task)
    returns (log lines, per-connection info)
    """
    from nostr_relay import web
    from nostr_relay.rate_limiter import NullRateLimiter

    # same_addr: every connection comes from one remote address and the relay's random connection token comes out the same
    # for all of them (a possible outcome of the draw): connections must still be told apart
    rec = Recorder(st, uni, nconns, sid_map, same_addr=same_addr)
    from nostr_relay import util as _util
    import types as _types

    real_secrets = _util.secrets
    if same_addr:
        _util.secrets = _types.SimpleNamespace(**{k: getattr(real_secrets, k) for k in dir(real_secrets) if not k.startswith("__")})
        _util.secrets.token_hex = lambda n=None: "ab" * (n or 32)
    # the handler throttles misbehaving clients with real sleeps (2, 4, 8 ... seconds): give web.py its own view of
    # the asyncio module in which sleep() only yields, and record what it asked for
    import types

    real_asyncio = web.asyncio
    rec.sleeps = []

    async def _no_sleep(delay, *a, **k):
        rec.sleeps.append(delay)
        await real_asyncio.sleep(0)

    web.asyncio = types.SimpleNamespace(**{k: getattr(real_asyncio, k) for k in dir(real_asyncio) if not k.startswith("__")})
    web.asyncio.sleep = _no_sleep
    # the storage layer waits for the previous round's notify tasks before it fans an event out (asyncio.wait).  How long
    # that takes is up to the tasks: here it always takes a few loop turns, so that messages of other connections do get
    # handled while a fan-out is suspended there
    from nostr_relay.storage import base as _base

    real_base_asyncio = _base.asyncio

    # "hold" / "release" steps: while held, stored queries do not get their rows (SQL: the cursor's fetches wait; LMDB: the
    # plan's execution in the reader pool waits), so that a CLOSE or a replacing REQ finds the query in the middle of its work
    import threading

    hold_ev = asyncio.Event()
    hold_ev.set()
    hold_thread_ev = threading.Event()
    hold_thread_ev.set()
    unpatch = []
    if any(step[0] == "hold" for step in schedule):
        try:
            import aiosqlite

            for name in ("fetchmany", "fetchone", "fetchall"):
                orig_fetch = getattr(aiosqlite.Cursor, name)

                def mk_fetch(orig_fetch=orig_fetch):
                    async def fetch(self_, *a, **kw):
                        await hold_ev.wait()
                        return await orig_fetch(self_, *a, **kw)
                    return fetch
                setattr(aiosqlite.Cursor, name, mk_fetch())
                unpatch.append(lambda name=name, orig_fetch=orig_fetch: setattr(aiosqlite.Cursor, name, orig_fetch))
        except ImportError:
            pass
        import sys as _sys

        kv = _sys.modules.get("nostr_relay.storage.kv")
        if kv is not None:
            orig_plan = kv.execute_one_plan

            def held_plan(*a, **kw):
                hold_thread_ev.wait(15)
                return orig_plan(*a, **kw)
            kv.execute_one_plan = held_plan
            unpatch.append(lambda: setattr(kv, "execute_one_plan", orig_plan))

    deferred = []

    def release_deferred():
        while deferred:
            c_, item = deferred.pop(0)
            if c_ in conns:
                conns[c_].inbox.put_nowait(item)

    async def _slow_wait(fs, **kw):
        # messages the schedule holds back for this moment ("defer") arrive now, while the fan-out is suspended
        release_deferred()
        for _ in range(4):
            await real_asyncio.sleep(0)
        return await real_asyncio.wait(fs, **kw)

    _base.asyncio = types.SimpleNamespace(**{k: getattr(real_asyncio, k) for k in dir(real_asyncio) if not k.startswith("__")})
    _base.asyncio.wait = _slow_wait
    conns = {}
    main = asyncio.current_task()
    rl = rate_limiter or NullRateLimiter()
    rec.limiter_calls = []
    if rate_limiter is not None:
        orig_limited = rl.is_limited

        def is_limited(addr, message):
            res = bool(orig_limited(addr, message))
            c = rec.conn_of_addr.get(addr, -1)
            rec.limiter_calls.append((addr, message[0], res, rl._timestamp(), _limiter_state(rl)))
            if res:
                rec.emit(a="Limited", c=c, cmd=message[0])
            return res

        rl.is_limited = is_limited

    async def handler(cn):
        rec.task_conn[asyncio.current_task()] = cn.c
        try:
            await web.start_client(st, cn.ws_send, cn.ws_recv, cn.ws_close, NullLog(), rate_limiter=rl,
                                   remote_addr=rec.addr[cn.c])
            cn.result = "returned"
        except BaseException as e:
            cn.result = "raised %s: %s" % (type(e).__name__, e)
        rec.emit(a="Disc", c=cn.c, result=cn.result, reg=rec.registry().get(cn.c, {}))

    def concretise(m):
        kind = m["m"]
        if kind == "REQ":
            fs = [uni.conc_filter(f) if f is not None else dict(BAD_FILTER) for f in m["fs"]]
            return json.dumps(["REQ", sid_map[m["sid"]]] + fs, ensure_ascii=False)
        if kind == "CLOSE":
            return json.dumps(["CLOSE", sid_map[m["sid"]]], ensure_ascii=False)
        if kind == "EVENT":
            return json.dumps(["EVENT", uni.conc[m["e"]]], ensure_ascii=False)
        if kind == "RAW":
            return m["text"]
        raise ValueError(kind)

    async def idle():
        stable = 0
        waited = 0.0
        while stable < 2:
            await asyncio.sleep(0)
            busy = False
            for t in asyncio.all_tasks():
                if t is main or t.done() or _is_background(t):
                    continue
                cn = getattr(t, "_verif_cn", None)
                if cn is not None:
                    if not ((cn.waiting and cn.inbox.empty()) or cn.blocked):
                        busy = True
                    continue
                if getattr(t.get_coro(), "__name__", "") == "send_subscriptions":
                    # a sender blocked on its own empty queue, or on a peer that does not read, is idle
                    try:
                        peer = getattr(t.get_coro().cr_frame.f_locals.get("ws_send"), "__self__", None)
                        if peer is not None and getattr(peer, "blocked", False):
                            continue
                        q = t.get_coro().cr_frame.f_locals["get_from_storage"].__self__
                        if not q.empty():
                            busy = True
                    except Exception:
                        busy = True
                    continue
                busy = True
            if busy:
                stable = 0
                await asyncio.sleep(0.001)
                waited += 0.001
                if waited > idle_timeout:
                    names = []
                    for t in asyncio.all_tasks():
                        if t is main or t.done() or _is_background(t):
                            continue
                        cn = getattr(t, "_verif_cn", None)
                        names.append("%s%s" % (getattr(t.get_coro(), "__qualname__", "?"),
                                               "" if cn is None else "(c=%d waiting=%s inbox=%d)" % (cn.c, cn.waiting, cn.inbox.qsize())))
                    rec.errors.append("idle timeout: " + ", ".join(sorted(names)))
                    return False
            else:
                stable += 1
        return True

    try:
        for step in schedule:
            kind = step[0]
            if kind == "open":
                cn = Conn(step[1], rec)
                conns[step[1]] = cn
                rec.emit(a="Conn", c=cn.c)
                cn.task = asyncio.create_task(handler(cn))
                cn.task._verif_cn = cn
                cn.task._verif_conn = cn.c
            elif kind == "msg":
                cn = conns[step[1]]
                cn.inbox.put_nowait(("msg", concretise(step[2]), step[2]))
            elif kind == "hold":
                hold_ev.clear()
                hold_thread_ev.clear()
            elif kind == "release":
                hold_ev.set()
                hold_thread_ev.set()
            elif kind == "defer":
                # a message that arrives when the storage layer next suspends a fan-out (or at the next idle point at the latest)
                deferred.append((step[1], ("msg", concretise(step[2]), step[2])))
            elif kind == "call":
                # dynamic messages: fn(recorder) -> [(c, frame text, abstract message)], built from what was observed so far
                for c, text, abstract in step[1](rec):
                    conns[c].inbox.put_nowait(("msg", text, abstract))
            elif kind == "timeout":
                # the peer stays silent until the relay's message timeout fires
                conns[step[1]].inbox.put_nowait(("timeout", None, None))
            elif kind == "do":
                # something the operator does while connections are open (an async function of the recorder), e.g. a role assignment
                await step[1](rec)
            elif kind == "disc":
                # a reading peer goes away gracefully: what the relay already had to say is still delivered, then ws_recv
                # reports the disconnect.  A stalled peer that goes away makes the pending ws_send fail, as a socket would.
                if not conns[step[1]].gate.is_set():
                    conns[step[1]].gone = True
                    conns[step[1]].gate.set()
                conns[step[1]].inbox.put_nowait(("disc", None, None))
            elif kind == "stall":
                conns[step[1]].gate.clear()
            elif kind == "unstall":
                conns[step[1]].gate.set()
            elif kind == "idle":
                ok = await idle()
                if deferred:
                    # no fan-out was suspended in the meantime: the held-back messages arrive now
                    release_deferred()
                    ok = await idle()
                rec.emit(a="Idle", ok=ok, reg=rec.registry(), qlen={c: 0 for c in conns})
            elif kind == "yield":
                for _ in range(step[1]):
                    await asyncio.sleep(0)
        release_deferred()
        hold_ev.set()
        hold_thread_ev.set()
        # end of schedule: disconnect whoever is still connected, then quiesce
        await idle()
        for cn in conns.values():
            if not cn.task.done():
                cn.inbox.put_nowait(("disc", None, None))
        ok = await idle()
        leftover = [t for t in asyncio.all_tasks() if t is not main and not t.done() and not _is_background(t)]
        rec.emit(a="End", ok=ok, tasks_left=len(leftover), reg=rec.registry())
        for t in leftover:
            t.cancel()
    finally:
        rec.uninstall()
        web.asyncio = real_asyncio
        _base.asyncio = real_base_asyncio
        hold_ev.set()
        hold_thread_ev.set()
        for fn in unpatch:
            fn()
        _util.secrets = real_secrets
    rec.log.append({"a": "LimiterCalls", "calls": rec.limiter_calls}) if rec.limiter_calls else None
    return rec.log, {c: {"result": cn.result, "close_code": cn.closed_code} for c, cn in conns.items()}, rec.errors


def _limiter_state(rl):
    import ipaddress

    out = {}
    for key, cmds in getattr(rl, "recent_commands", {}).items():
        name = key if key == "global" else str(ipaddress.ip_address(key))
        out[name] = {cmd: [int(x) for x in dq] for cmd, dq in cmds.items()}
    return out


def _queues_of(rec):
    return [q for q in rec.keep if isinstance(q, asyncio.Queue)]
