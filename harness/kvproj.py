"""
Projection of the complete storage contents onto the abstract keys of KvIndex.tla.
LMDB: every key of the environment, decoded by prefix byte.  SQL: every row of `events` and `tags`.
Anything that cannot be mapped to the universe's symbols becomes a ("garbage", ...) key.
"""
from . import common as C


def _author_of(uni, pubhex):
    for a in uni.authors:
        try:
            if C.pubkey(a) == pubhex:
                return a
        except Exception:
            pass
    return "?" + pubhex[:8]


def _tag_table(uni):
    """bytes of name + NUL + str(value)  ->  (name symbol, value symbol) for every tag of every universe event"""
    table = {}
    for sym, ab in uni.abs.items():
        conc = uni.conc[sym]
        for at, ct in zip(ab["tags"], conc["tags"]):
            if len(at) >= 2 and len(ct) >= 2 and isinstance(ct[0], str):
                key = ct[0].encode() + b"\x00" + str(ct[1]).encode()
                table[key] = (at[0], at[1])
    return table


def lmdb_abstract_keys(st_or_env, uni):
    from nostr_relay.storage import kv

    table = _tag_table(uni)
    out = set()
    for k, v in C.lmdb_dump_keys(st_or_env):
        p = k[:1]
        try:
            if k == b"\xee":
                out.add(("sentinel",))
            elif p == b"\x00" and len(k) == 33:
                ev = kv.decode_event(kv.unpackb(v, use_list=False))
                sym = uni.sym_event(ev)
                out.add(("id", sym) if sym is not None and ev.id == k[1:].hex() else ("garbage", "record", k.hex()[:24]))
            else:
                eid = k[-32:].hex()
                sym = uni.sym_of_id.get(eid)
                ts = int.from_bytes(k[-37:-33], "big") - C.T0
                body = k[1:-38]
                if sym is None or k[-38:-37] != b"\x00" or k[-33:-32] != b"\x00":
                    out.add(("garbage", "entry", k.hex()[:40]))
                elif p == b"\x01" and len(body) == 4:
                    out.add(("created", int.from_bytes(body, "big") - C.T0, sym) if int.from_bytes(body, "big") - C.T0 == ts
                            else ("garbage", "created", k.hex()[:40]))
                elif p == b"\x02" and len(body) == 4:
                    out.add(("kind", int.from_bytes(body, "big"), ts, sym))
                elif p == b"\x03" and len(body) == 32:
                    out.add(("author", _author_of(uni, body.hex()), ts, sym))
                elif p == b"\x04" and len(body) == 37 and body[32:33] == b"\x00":
                    out.add(("authorkind", _author_of(uni, body[:32].hex()), int.from_bytes(body[33:], "big"), ts, sym))
                elif p == b"\x09" and body in table:
                    name, val = table[body]
                    out.add(("tag", name, val, ts, sym))
                else:
                    out.add(("garbage", "entry", k.hex()[:40]))
        except Exception as e:
            out.add(("garbage", type(e).__name__, k.hex()[:40]))
    return out


async def sql_abstract_keys(st, uni):
    import sqlalchemy as sa

    out = set()
    vals = {}
    for sym, ab in uni.abs.items():
        conc = uni.conc[sym]
        for at, ct in zip(ab["tags"], conc["tags"]):
            if len(ct) >= 1 and isinstance(ct[0], str):
                vals[(ct[0], str(ct[1]) if len(ct) > 1 else "")] = (at[0], at[1] if len(at) > 1 else "")
    async with st.db.connect() as conn:
        rows = (await conn.execute(sa.text("SELECT id, created_at, kind, pubkey, tags, sig, content FROM events"))).fetchall()
        tagrows = (await conn.execute(sa.text("SELECT id, name, value FROM tags"))).fetchall()
    from nostr_relay.storage.db import event_from_tuple

    for r in rows:
        try:
            ev = event_from_tuple(r)
            sym = uni.sym_event(ev)
            out.add(("id", sym) if sym is not None else ("garbage", "row", r[0].hex()[:24]))
        except Exception as e:
            out.add(("garbage", type(e).__name__, repr(r[0])[:24]))
    for rid, name, value in tagrows:
        sym = uni.sym_of_id.get(rid.hex())
        key = (name, "" if value is None else str(value))
        if sym is None or key not in vals:
            out.add(("garbage", "tagrow", (rid.hex()[:16], name, str(value)[:16])))
        else:
            out.add(("tagrow", vals[key][0], vals[key][1], sym))
    return out


def tla_keys(keys):
    """python tuples -> nested lists ready for harness.tlc.tla (a set of sequences)"""
    return set(tuple(_flat(x) for x in k) for k in keys)


def _flat(x):
    if isinstance(x, tuple):
        return "/".join(str(y) for y in x)
    return x
