"""./check setup: offline sanity of the framework (vendored liblmdb checksum, SANY on every spec, shim self-test)."""
import glob
import hashlib
import os
import sys

from . import common as C
from . import tlc

LIBLMDB_SHA256 = "741b5aa312727b1f8ccd8c5dee368a5487d8cb275ef3144cf72d29e2579cdb70"


def shim_selftest():
    import lmdb

    with C.Scratch() as d:
        env = lmdb.open(d, map_size=1 << 22, sync=False)
        with env.begin(write=True) as txn:
            for k in (b"\x01a", b"\x01b", b"\x02a", b"\xee"):
                assert txn.put(k, b"v" + k)
        with env.begin(buffers=True) as txn:
            assert bytes(txn.get(b"\x01a")) == b"v\x01a" and txn.get(b"zz") is None
            c = txn.cursor()
            assert c.set_range(b"\x01\xff") and bytes(c.key()) == b"\x02a"
            assert c.prev() and bytes(c.key()) == b"\x01b"
            assert not c.set_range(b"\xff")          # nothing >= key: unpositioned ...
            assert c.prev() and bytes(c.key()) == b"\xee"   # ... and prev() then yields the last key
            assert [bytes(k) for k in c.iternext(values=False)] == [b"\xee"]
            c.close()
        # deleting the key under a cursor inside a write transaction: prev() continues below it
        with env.begin(write=True, buffers=True) as txn:
            c = txn.cursor()
            assert c.set_range(b"\x02") and bytes(c.key()) == b"\x02a"
            assert c.prev() and bytes(c.key()) == b"\x01b"
            assert txn.delete(b"\x01b") and not txn.delete(b"\x01b")
            assert c.prev() and bytes(c.key()) == b"\x01a"
            c.close()
        # an exception inside the with-block aborts
        try:
            with env.begin(write=True) as txn:
                txn.put(b"\x05x", b"")
                raise KeyError
        except KeyError:
            pass
        with env.begin() as txn:
            assert txn.get(b"\x05x") is None
        env.close()
    import msgpack

    assert msgpack.unpackb(msgpack.packb((1, b"x", "y", [["a", 1]]), use_bin_type=True), use_list=False) == (1, b"x", "y", (("a", 1),))


def main():
    ok = True
    lib = os.path.join(C.VERIF, "vendor", "liblmdb.so")
    h = hashlib.sha256(open(lib, "rb").read()).hexdigest()
    if h != LIBLMDB_SHA256:
        print("liblmdb.so checksum mismatch")
        ok = False
    try:
        shim_selftest()
        print("lmdb shim self-test ok")
    except Exception as e:
        import traceback

        traceback.print_exc()
        print("lmdb shim self-test FAILED", e)
        ok = False
    for path in sorted(glob.glob(os.path.join(C.VERIF, "spec", "*.tla"))):
        if path.endswith("_proofs.tla"):
            continue        # proof modules extend TLAPS.tla, which belongs to tlapm's library, not to SANY's: tlapm checks them (C16)
        good, out = tlc.sany(path)
        print("SANY %-24s %s" % (os.path.basename(path), "ok" if good else "FAILED"))
        if not good:
            print(out[-1500:])
            ok = False
    return 0 if ok else 2


if __name__ == "__main__":
    sys.exit(main())
