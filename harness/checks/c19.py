"""
C19: hostile input.  A grammar of typed mutations of well-formed frames (every JSON type at every position of
EVENT / REQ / CLOSE / AUTH frames and of event and filter objects, non-JSON text, oversized and deeply nested values)
is sent on one connection of web.start_client, followed by well-formed probes on the same connection, while a second,
well-behaved connection runs its own script; the run is compared with the same run without the junk.  TLC judges the
observations against Junk.tla (Junk_Trace.tla).
"""
import asyncio
import copy
import json
import random

from .. import common as C
from .. import pool, tracedata
from ..report import Outcome
from ..universe import Universe
from .storefam import E

JUNK_VALUES = [None, True, False, 0, -1, 1.5, 2 ** 64, "", "x", {}, [], [[]], {"a": {"b": [1, {"c": None}]}}, "\x00", "ä\U0001f600", [None],
               "x" * 70000]


def universe():
    return Universe([E("p0", "A", 1, 10, [["t", "a"]]), E("p1", "B", 1, 20, [["t", "a"]]), E("p2", "A", 1, 30, [["t", "b"]]),
                     E("j0", "C", 1, 40, [["t", "a"], ["e", "p0"], ["p", "A"]])])


def nested(depth):
    v = []
    for _ in range(depth):
        v = [v]
    return v


SEQ_SEP = "\x1e"
CTL_HOLD, CTL_RELEASE, CTL_YIELD = "\x1fHOLD", "\x1fRELEASE", "\x1fYIELD"       # driver steps inside a pipelined sequence


def junk_frames(uni, rnd, tier):
    ev = uni.conc["j0"]
    flt = {"ids": [ev["id"]], "authors": [ev["pubkey"]], "kinds": [1], "#t": ["a"], "since": 1, "until": 2000000000, "limit": 5}
    bases = [["EVENT", ev], ["REQ", "jsub", flt], ["REQ", "jsub", flt, {"kinds": [7]}], ["CLOSE", "jsub"], ["AUTH", ev]]
    frames = []
    for base in bases:
        for pos in range(len(base)):
            for j in JUNK_VALUES:
                f = copy.deepcopy(base)
                f[pos] = j
                frames.append(f)
        frames.append(base[:1])
        frames.append(base + ["extra", 1])
    for key in list(ev):
        for j in JUNK_VALUES:
            e2 = copy.deepcopy(ev)
            e2[key] = j
            frames.append(["EVENT", e2])
        e2 = copy.deepcopy(ev)
        del e2[key]
        frames.append(["EVENT", e2])
    for bad_tags in ([[]], [[1]], [["e"]], [["e", None]], [[None, None]], [["e", ev["id"]] * 500], [["delegation"]], [["delegation", "x", "y", "z"]],
                     [["delegation", ev["pubkey"], "kind=1", "00" * 64]], [["expiration"]], [[""]], "tags", [["p", 5]], [[{"a": 1}, "b"]]):
        e2 = copy.deepcopy(ev)
        e2["tags"] = bad_tags
        frames.append(["EVENT", e2])
        e3 = copy.deepcopy(ev)
        e3["tags"] = bad_tags
        e3["kind"] = 5
        frames.append(["EVENT", e3])
    for key in list(flt) + ["search", "#e", "#", "#xx", "unknown"]:
        for j in JUNK_VALUES:
            f2 = copy.deepcopy(flt)
            f2[key] = j
            frames.append(["REQ", "jsub", f2])
    # correctly signed events whose tags are hostile: they pass the signature check and reach storage, matching and fan-out
    hostile_tags = [[["e", ["nested"]]], [["t", {"a": 1}]], [["t", None]], [["t", 5]], [[]], [["e"]], [[None]], [["t", "a", ["x"]]],
                    [["p", ["A"]], ["e", "x"]], [["delegation", "x"]], [["expiration", ["1"]]], [["d", ["x"]]], [["t", ["a"]], ["t", "a"]],
                    [["e", {"k": []}]], [[["t"], "a"]], [["t", True]], [["t", 1.5]], [["p", ev["pubkey"], ["relay"]]]]
    n = 0
    for kind in (1, 5, 30000, 10000, 20000):
        for tags in hostile_tags:
            n += 1
            try:
                frames.append(["EVENT", C.mk_event("C", kind=kind, created_at=C.T0 + 100 + n, tags=tags, content="hostile %d" % n)])
            except Exception:
                pass
    texts = [json.dumps(f, ensure_ascii=False) for f in frames]
    texts += ["", " ", "not json", "[", "{}", "null", "[]", "[1]", '["EVENT"]', '["REQ"]', '["NOPE", 1]', '"EVENT"', "[[\"EVENT\"]]", "\x00",
              json.dumps(nested(200)), json.dumps(["REQ", "deep", {"kinds": nested(100)}]), json.dumps(["EVENT", {"id": nested(50)}]),
              '["REQ","s",{"kinds":[1],"kinds":[2]}]', '["EVENT",{"id":"' + "a" * 64 + '"}]', "[" * 5000, '["REQ", "x", ' + "{" * 300]
    seen = {}
    for t in texts:
        seen.setdefault(t, None)
    texts = list(seen)
    if tier == "quick":
        rnd.shuffle(texts)
        texts = texts[:260]
    # well-formed commands in a hostile order, pipelined without waiting for the answers (frames separated by SEQ_SEP): the
    # same subscription id re-used while its query is running, CLOSE / re-REQ bursts, the same event twice
    J = lambda f: json.dumps(f, ensure_ascii=False)      # noqa: E731
    r1, r2 = ["REQ", "jsub", {"kinds": [1]}], ["REQ", "jsub", {"kinds": [1], "limit": 1}]
    seqs = [[r1, r1], [r1, r2, r1], [r1, ["CLOSE", "jsub"], r1], [r1, ["CLOSE", "jsub"], ["CLOSE", "jsub"]], [["CLOSE", "jsub"], ["CLOSE", "jsub"]],
            [["EVENT", ev], ["EVENT", ev]], [r1, ["EVENT", ev], r1, ["EVENT", ev]], [r1, ["REQ", "jsub", None], r1],
            [["REQ", "jsub%d" % k, {"kinds": [1]}] for k in range(6)] + [["REQ", "jsub0", {"kinds": [7]}]], [["AUTH", ev], ["AUTH", ev]]]
    # subscription ids that are legal strings but falsy or odd for a program: the empty string, "0", blanks, a very long one.
    # The connection ends (after the probes) with that subscription still open.
    for odd in ("", "0", " ", "null", "x" * 300):
        seqs.append([["REQ", odd, {"kinds": [1]}]])
        seqs.append([["REQ", odd, {"kinds": [1]}], ["REQ", "jsub", {"kinds": [7]}], ["CLOSE", odd], ["REQ", odd, {"kinds": [1], "limit": 1}]])
    texts += [SEQ_SEP.join(J(f) for f in sq) for sq in seqs]
    # a subscription closed (or replaced) again and again while its stored query is in the middle of its work: whatever a
    # cancelled query holds (a slot, a connection, a cursor) must be given back - a dozen times over, then the probes
    r_all = J(["REQ", "jsub", {"kinds": [1]}])
    texts.append(SEQ_SEP.join([CTL_HOLD, r_all, CTL_YIELD, J(["CLOSE", "jsub"]), CTL_YIELD, CTL_RELEASE, CTL_YIELD] * 12))
    texts.append(SEQ_SEP.join([CTL_HOLD, r_all, CTL_YIELD, J(["REQ", "jsub", {"kinds": [7]}]), CTL_YIELD, CTL_RELEASE, CTL_YIELD] * 12))
    # the same hostile (correctly signed) event many times over, and a run of different ones: whatever a single such event
    # costs the relay (a slot, a task, a lock, a queue entry) must not add up until later commands go unanswered
    bursts = []
    n = 0
    for kind in (1, 5, 30000):
        for tags in hostile_tags + [[["e", "this-is-not-an-id"]], [["expiration"]], [["e", ev["id"]], ["e", "zz"]]]:
            n += 1
            try:
                bursts.append(["EVENT", C.mk_event("C", kind=kind, created_at=C.T0 + 500 + n, tags=tags, content="burst %d" % n)])
            except Exception:
                pass
    reps = 6 if tier == "quick" else 12
    chosen = bursts if tier != "quick" else [bursts[k] for k in sorted(rnd.sample(range(len(bursts)), 16))]
    texts += [SEQ_SEP.join([J(f)] * reps) for f in chosen]
    texts += [SEQ_SEP.join(J(f) for f in bursts[k:k + reps]) for k in range(0, len(bursts), reps)]
    return texts


def transcript(log, c):
    out = []
    for ln in log:
        if ln["a"] == "Send" and ln["c"] == c:
            f = ln["f"]
            if f["t"] == "GARBAGE" and f.get("why") == "event-not-verbatim":
                continue        # a push of the (accepted) hostile event itself: it is not part of the universe
            out.append((f["t"], f.get("sid", ""), f.get("e", ""), f.get("ok", "")))
        elif ln["a"] == "WsClose" and ln["c"] == c:
            out.append(("WSCLOSE", ln["code"]))
    return out


def same_view(a, b):
    """
    Two transcripts of one connection show the same thing if the frames the handler writes (OK, NOTICE, close) come in the
    same order and, per subscription id, the frames the sender writes (EVENT, EOSE) do.  How the two writers' frames
    interleave on the socket is a matter of scheduling (validators and the LMDB reader run in threads) and is not compared.
    """
    def split(t):
        by_handler = [x for x in t if x[0] not in ("EVENT", "EOSE")]
        per_sid = {}
        for x in t:
            if x[0] in ("EVENT", "EOSE"):
                per_sid.setdefault(x[1], []).append(x)
        return by_handler, per_sid
    return split(a) == split(b)


def _worker(payload):
    backend, texts = payload
    from .. import relaydrv, storedrv

    uni = universe()
    sid_map = {"w1": "well1", "w2": "well2", "w3": "well3", "p1": "probe1", "jsub": "jsub", "odd0": "", "odd1": "0", "odd2": " ",
               "odd3": "null", "odd4": "x" * 300}

    def schedule(junk, zero_continues):
        s = [("open", 0), ("open", 1), ("msg", 1, {"m": "REQ", "sid": "w1", "fs": [{"kinds": [1]}]}), ("idle",),
             ("msg", 1, {"m": "REQ", "sid": "w2", "fs": [{"tags": {"t": ["a"]}}]}), ("idle",),
             ("msg", 1, {"m": "REQ", "sid": "w3", "fs": [{"tags": {"e": ["p0"], "p": ["A"]}}, {"authors": ["B"], "tags": {"t": ["b"]}}]}), ("idle",)]
        if junk is not None:
            ctl = {CTL_HOLD: ("hold",), CTL_RELEASE: ("release",), CTL_YIELD: ("yield", 8)}
            s += [ctl.get(part) or ("msg", 0, {"m": "RAW", "text": part}) for part in junk.split(SEQ_SEP)] + [("idle",)]
        if zero_continues:
            s += [("msg", 0, {"m": "REQ", "sid": "p1", "fs": [{"tags": {"t": ["b"]}}]}), ("idle",), ("msg", 0, {"m": "EVENT", "e": "p0"}), ("idle",)]
        s += [("msg", 1, {"m": "EVENT", "e": "p1"}), ("idle",), ("msg", 1, {"m": "EVENT", "e": "p2"}), ("idle",)]
        return s

    async def run(junk, zero_continues):
        with C.Scratch() as d:
            st = await storedrv.open_storage(backend, d, sync_writer=False)
            try:
                log, info, errs = await relaydrv.run_connections(st, uni, 2, schedule(junk, zero_continues), sid_map)
            finally:
                await storedrv.close_storage(st)
        return log, info, errs

    async def main():
        out = []
        base_alive = transcript((await run(None, True))[0], 1)
        base_closed = transcript((await run(None, False))[0], 1)
        for junk in texts:
            log, info, errs = await run(junk, True)
            # what happened to the junk frame: look at connection 0 between its Recv(RAW) and the next Idle
            frames0 = []
            closed = False
            seen = False
            probes = {"REQ": None, "EVENT": None}
            cur = None
            for ln in log:
                if ln["a"] == "Recv" and ln["c"] == 0:
                    cur = ln["m"]
                    if cur in probes:
                        probes[cur] = False
                elif ln["a"] == "Send" and ln["c"] == 0:
                    if cur == "RAW":
                        frames0.append(ln["f"]["t"])
                    elif cur == "REQ" and ln["f"]["t"] in ("EOSE", "NOTICE") and ln["f"].get("sid", "p1") == "p1":
                        probes["REQ"] = True
                    elif cur == "EVENT" and ln["f"]["t"] == "OK":
                        probes["EVENT"] = bool(ln["f"]["ok"])      # a new valid event must be accepted, not merely answered
                elif ln["a"] in ("WsClose",) and ln["c"] == 0:
                    closed = True
                elif ln["a"] == "Disc" and ln["c"] == 0 and cur == "RAW":
                    closed = True
            raised = info[0]["result"] != "returned"
            outcome = "raised" if raised else ("closed" if closed or probes["REQ"] is None else ("answered" if frames0 else "ignored"))
            lines = [{"a": "Junk", "c": 0, "out": outcome, "_frames": frames0, "_junk": junk[:300]}]
            for what in ("REQ", "EVENT"):
                lines.append({"a": "Probe", "c": 0, "answered": bool(probes[what]), "_what": what})
            # (a mutated frame can still be an acceptable event - e.g. a missing id is computed - and is then pushed like any other)
            mine = [x for x in transcript(log, 1) if not (x[0] == "EVENT" and x[2] == "j0")]
            # what connection 1 sees depends on whether connection 0 went on to publish p0
            expect = base_alive if probes["EVENT"] else base_closed
            lines.append({"a": "Other", "same": same_view(mine, expect), "_got": mine[:12], "_expected": expect[:12]})
            end = [ln for ln in log if ln["a"] == "End"]
            lines.append({"a": "End", "tasks": end[0]["tasks_left"] if end else 99, "handlers_ok": all(v["result"] == "returned" for v in info.values()),
                          "regs_empty": bool(end) and not any(end[0]["reg"].values()), "_errs": errs})
            out.append(lines)
        return out

    return asyncio.run(main())


def _slow_worker(payload):
    """
    A peer that stops reading while answers pile up for it, then hangs up; a well-behaved second connection goes on publishing.
    Three ways to make answers pile up: REQs the handler itself answers with EOSE (invalid filters), REQs answered by query
    tasks (stored events), live pushes by notify tasks.  The same schedule with a reading peer is the reference.
    """
    backend, kind, n = payload
    from .. import relaydrv, storedrv

    uni = universe()
    sid_map = {"w1": "well1", "live": "live0", "p1": "probe1"}
    sid_map.update({"b%d" % k: "burst%d" % k for k in range(n)})

    def schedule(stalled):
        s = [("open", 0), ("open", 1), ("msg", 1, {"m": "REQ", "sid": "w1", "fs": [{"kinds": [1]}]}), ("idle",),
             ("msg", 1, {"m": "EVENT", "e": "p0"}), ("idle",),
             ("msg", 0, {"m": "REQ", "sid": "live", "fs": [{"kinds": [1]}]}), ("idle",)]
        if stalled:
            s.append(("stall", 0))
        if kind == "handler-eose":
            s += [("msg", 0, {"m": "REQ", "sid": "b%d" % k, "fs": [None]}) for k in range(n)]
        elif kind == "query":
            s += [("msg", 0, {"m": "REQ", "sid": "b%d" % k, "fs": [{"kinds": [1]}]}) for k in range(n)]
        else:
            s += [("msg", 1, {"m": "EVENT", "e": "p1"}), ("idle",)]
        s += [("idle",), ("disc", 0), ("idle",),
              ("msg", 1, {"m": "EVENT", "e": "p2"}), ("idle",), ("msg", 1, {"m": "EVENT", "e": "j0"}), ("idle",),
              # (a filter nothing stored matches: with the LMDB writer running in its own thread, whether a just-acknowledged
              #  event is already visible to a query is a matter of timing and must not enter the comparison)
              ("msg", 1, {"m": "REQ", "sid": "p1", "fs": [{"kinds": [7]}]}), ("idle",)]
        return s

    async def run(stalled):
        with C.Scratch() as d:
            st = await storedrv.open_storage(backend, d, sync_writer=False)
            try:
                return await relaydrv.run_connections(st, uni, 2, schedule(stalled), sid_map, idle_timeout=4.0)
            finally:
                await storedrv.close_storage(st)

    async def main():
        base = transcript((await run(False))[0], 1)
        log, info, errs = await run(True)
        oks = [ln["f"] for ln in log if ln["a"] == "Send" and ln["c"] == 1 and ln["f"]["t"] == "OK"]
        eose = [ln["f"] for ln in log if ln["a"] == "Send" and ln["c"] == 1 and ln["f"]["t"] == "EOSE" and ln["f"].get("sid") == "p1"]
        lines = [{"a": "Junk", "c": 0, "out": "closed", "_frames": [], "_junk": "peer stops reading (%s x %d), then hangs up" % (kind, n)},
                 {"a": "Probe", "c": 1, "answered": len(oks) >= 3 and all(f["ok"] for f in oks[-2:]), "_what": "EVENT x2 after the hang-up"},
                 {"a": "Probe", "c": 1, "answered": bool(eose), "_what": "REQ after the hang-up"}]
        mine = transcript(log, 1)
        lines.append({"a": "Other", "same": same_view(mine, base), "_got": mine[-8:], "_expected": base[-8:]})
        end = [ln for ln in log if ln["a"] == "End"]
        lines.append({"a": "End", "tasks": end[0]["tasks_left"] if end else 99, "handlers_ok": all(v["result"] == "returned" for v in info.values()),
                      "regs_empty": bool(end) and not any(end[0]["reg"].values()), "_errs": errs})
        return [lines]

    return asyncio.run(main())


def run(prop, tier, seed, **kw):
    out = Outcome("C19", tier, seed, "exploration")
    rnd = random.Random(seed)
    uni = universe()
    texts = junk_frames(uni, rnd, tier)
    payloads = [(b, texts[k:k + 20]) for b in ("sql", "lmdb") for k in range(0, len(texts), 20)]
    results = pool.map_in_workers("harness.checks.c19", "_worker", payloads, config={"subscription_limit": 8})
    traces = [tr for res in results for tr in res]
    backs = [p[0] for p in payloads for _ in range(len(p[1]))]
    # slow readers (with a small max_limit, so that anything sized by it is small too)
    slow = [(b, kind, n) for b in ("sql", "lmdb") for kind in ("handler-eose", "query", "notify") for n in ((5, 40) if tier == "quick" else (2, 5, 40, 400))
            if not (kind == "notify" and n != 5)]
    for p, res in zip(slow, pool.map_in_workers("harness.checks.c19", "_slow_worker", slow, config={"subscription_limit": 500, "max_limit": 3})):
        traces += res
        backs += [p[0]] * len(res)
    verdicts, vstats = tracedata.validate("Junk_Trace", {"TD_JunkConns": {0, 1}}, traces, batch=200)
    out.add_model(vstats)
    outcomes = {}
    samples = []
    distinct = set()
    for k, tr in enumerate(traces):
        out.cov["evaluations"] += 1
        out.cov["traces_validated_against_impl"] += 1
        outcomes[tr[0]["out"]] = outcomes.get(tr[0]["out"], 0) + 1
        distinct.add((backs[k], tr[0]["_junk"]))
        if len(samples) < 4 and k % 61 == 9:
            samples.append({"backend": backs[k], "junk": tr[0]["_junk"][:160], "outcome": tr[0]["out"], "frames": tr[0]["_frames"]})
        for b in verdicts[k]:
            ln = tr[b[1] - 1]
            what = "C19 on %s: %s after junk frame %r: %s" % (backs[k], b[0], tr[0]["_junk"][:200], {x: y for x, y in ln.items() if x != "_junk"})
            out.violation(what, {"formula": b[0], "backend": backs[k], "line": ln}, lambda p, tr=tr, b=b: _dump(p, tr, b))
            break
    out.cov["distinct_nontrivial"] = len(distinct)
    out.cov["rule"] = ("typed mutations of EVENT / REQ / CLOSE / AUTH frames (17 junk values incl. 2^64, 70 kB strings, nested objects at "
                       "every position; every field of the event and filter objects replaced or removed; malformed tag arrays also on "
                       "kind 5), non-JSON text, 200-deep and unterminated nestings; each followed by REQ and EVENT probes on the same "
                       "connection and interleaved with a well-behaved second connection whose transcript is compared with the same "
                       "run without the junk; both backends; quick samples 260 frames by seed; a case is (backend, frame)")
    out.cov["samples"] = samples or [{"note": "none"}]
    out.notes["outcomes_of_junk_frames"] = outcomes
    return out


def _dump(path, tr, b):
    import os

    os.makedirs(os.path.dirname(path), exist_ok=True)
    with open(path, "w") as fp:
        json.dump({"meta": {"property": "C19"}, "verdict": b, "trace": tr}, fp, indent=1, default=str)
