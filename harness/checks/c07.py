"""
C07: atomicity of applying one event, under engine errors and process kills at every storage mutation.
For every TLC-generated history and every event of it: a fault-free instrumented run counts the storage mutations
m of that event (LMDB: put / delete / commit calls of the writer transaction, seen by the shim's fault hook; SQL:
statements executed inside add_event, seen by a SQLAlchemy cursor listener); then for every k in 1..m the history
is run again with (i) an injected engine error at the k-th mutation, in-process, followed by an independent probe
event, and (ii) a process kill at the k-th mutation in a forked child, the parent reopening the database.
Every dump is judged by TLC (KvIndex_Trace.tla): coherent, and equal to the state before the event or to the
state after it (the dump of the fault-free run).
"""
import asyncio
import os
import random

from .. import common as C
from .. import gen, kvproj, pool, tlc, tracedata
from ..report import Outcome
from ..universe import Universe
from .storefam import E
from . import kvfam

PROBE = "zz1"


def c07_universe():
    return kvfam.kv_universe() + [E(PROBE, "C", 1, 50, [["t", "probe"]])]


class Fault:
    """counts storage mutations while armed; at the chosen one raises an engine error or kills the process"""

    def __init__(self):
        self.armed = False
        self.count = 0
        self.at = None
        self.kill = False

    def arm(self, at=None, kill=False):
        self.armed, self.count, self.at, self.kill = True, 0, at, kill

    def disarm(self):
        self.armed = False
        return self.count

    def hit(self, what):
        if not self.armed:
            return
        self.count += 1
        if self.at is not None and self.count == self.at:
            if self.kill:
                os._exit(137)
            self.armed = False
            raise self.error(what)


def install(st, backend, fault):
    if backend == "lmdb":
        import lmdb

        fault.error = lambda what: lmdb.InjectedError("injected engine failure at %s" % (what,))
        lmdb.set_fault_hook(lambda op, key: fault.hit(op))
        return lambda: lmdb.set_fault_hook(None)
    import sqlalchemy as sa

    fault.error = lambda what: sa.exc.OperationalError("injected", None, Exception("injected engine failure"))

    def before(conn, cursor, statement, parameters, context, executemany):
        s = statement.lstrip().upper()
        if s.startswith("PRAGMA"):
            return
        fault.hit(s[:20])

    sa.event.listen(st.db.sync_engine, "before_cursor_execute", before)
    # a process kill must not let a COMMIT through either: count it as a mutation
    def on_commit(conn):
        fault.hit("COMMIT")

    sa.event.listen(st.db.sync_engine, "commit", on_commit)

    def remove():
        sa.event.remove(st.db.sync_engine, "before_cursor_execute", before)
        sa.event.remove(st.db.sync_engine, "commit", on_commit)
    return remove


async def apply_event(st, backend, uni, sym, fault, at=None, kill=False):
    """submit one event and let the writer apply it, with the fault armed around the application only"""
    from .. import storedrv as D

    ev = uni.conc[sym]
    err = ""
    if backend == "sql":
        fault.arm(at, kill)
        try:
            await st.add_event(D._clone(ev))
        except Exception as e:
            err = "%s: %s" % (type(e).__name__, str(e)[:80])
        n = fault.disarm()
    else:
        try:
            await st.add_event(D._clone(ev))
        except Exception as e:
            err = "%s: %s" % (type(e).__name__, str(e)[:80])
        fault.arm(at, kill)
        while st._verif_gate.items:
            D.writer_step(st, 1)
        n = fault.disarm()
    return n, err


async def scenario(backend, uni, path, history, j=None, at=None, kill=False, probe=True):
    """run history; the event at position j gets the fault.  Returns (lines, mutation counts)"""
    from .. import storedrv as D

    st = await D.open_storage(backend, path, **({"sync": True, "metasync": True} if backend == "lmdb" and kill else {}))
    fault = Fault()
    remove = install(st, backend, fault)
    dump = kvfam._keydump(backend, uni)
    lines = []
    counts = []
    try:
        for pos, sym in enumerate(history):
            faulty = (pos == j)
            n, err = await apply_event(st, backend, uni, sym, fault, at if faulty else None, kill if faulty else False)
            counts.append(n)
            lines.append({"a": "Fault" if faulty and at is not None else "Step", "sym": sym, "keys": await dump(st), "err": err})
            if faulty and at is not None:
                break
        if j is not None and at is not None and probe:
            await apply_event(st, backend, uni, PROBE, fault)
            keys = await dump(st)
            lines.append({"a": "Probe", "id": PROBE, "present": ("id", PROBE) in keys})
    finally:
        remove()
        await D.close_storage(st)
    return lines, counts


async def burst_scenario(uni, path, history, j, at):
    """LMDB: the event at position j and the probe event are both in the writer's queue when the writer runs, and the engine
    fails at the k-th mutation of the run.  Whatever the writer makes of a backlog, the failing event is applied completely or
    not at all and the event queued behind it is applied."""
    from .. import storedrv as D

    st = await D.open_storage("lmdb", path)
    fault = Fault()
    remove = install(st, "lmdb", fault)
    dump = kvfam._keydump("lmdb", uni)
    try:
        for sym in history[:j]:
            await apply_event(st, "lmdb", uni, sym, fault)
        for sym in (history[j], PROBE):
            try:
                await st.add_event(D._clone(uni.conc[sym]))
            except Exception:
                pass
        fault.arm(at, False)
        n = len(st._verif_gate.items)
        if n:
            D.writer_step(st, n)
        while st._verif_gate.items:          # (what a writer left in the queue is worked off without faults)
            fault.disarm()
            D.writer_step(st, 1)
        fault.disarm()
        keys = await dump(st)
    finally:
        remove()
        await D.close_storage(st)
    present = ("id", PROBE) in keys
    # (projection: the probe's own entries are set aside so that the dump can be compared with the states before / after the event)
    return [{"a": "Fault", "sym": history[j], "keys": {k for k in keys if k[-1] != PROBE}, "err": "burst"},
            {"a": "Probe", "id": PROBE, "present": present}]


def _worker(payload):
    key, backend, histories, do_kill, max_points = payload
    uni = pool._CTX[key]
    out = []
    for history in histories:
        with C.Scratch() as base:
            clean, counts = asyncio.run(scenario(backend, uni, os.path.join(base, "clean") if backend != "sql" else _sqlpath(base, "clean"), history))
            cases = []
            for j, m in enumerate(counts):
                ks = list(range(1, m + 1))
                if max_points and len(ks) > max_points:
                    ks = sorted(set([1, 2, m - 1, m] + random.Random(j).sample(ks, max_points)))
                for k in ks:
                    p = os.path.join(base, "f%d_%d" % (j, k)) if backend != "sql" else _sqlpath(base, "f%d_%d" % (j, k))
                    lines, _ = asyncio.run(scenario(backend, uni, p, history, j=j, at=k))
                    cases.append(("error", j, k, lines))
                    if backend == "lmdb":
                        p = os.path.join(base, "b%d_%d" % (j, k))
                        cases.append(("burst-error", j, k, asyncio.run(burst_scenario(uni, p, history, j, k))))
                    if do_kill:
                        p = os.path.join(base, "k%d_%d" % (j, k)) if backend != "sql" else _sqlpath(base, "k%d_%d" % (j, k))
                        pid = os.fork()
                        if pid == 0:
                            try:
                                asyncio.run(scenario(backend, uni, p, history, j=j, at=k, kill=True, probe=False))
                            finally:
                                os._exit(0)      # the kill point was not reached
                        _, status = os.waitpid(pid, 0)
                        killed = os.WIFEXITED(status) and os.WEXITSTATUS(status) == 137
                        keys = asyncio.run(reopen_dump(backend, uni, p))
                        cases.append(("kill" if killed else "nokill", j, k, [{"a": "Kill", "sym": history[j], "keys": keys, "err": ""}]))
            out.append((history, clean, counts, cases))
    return out


def _sqlpath(base, name):
    d = os.path.join(base, name)
    os.makedirs(d, exist_ok=True)
    return d


async def reopen_dump(backend, uni, path):
    from .. import storedrv as D

    st = await D.open_storage(backend, path)
    try:
        return await kvfam._keydump(backend, uni)(st)
    finally:
        await D.close_storage(st)


def run(tier, seed, backends=("sql", "lmdb")):
    out = Outcome("C07", tier, seed, "fault_enumeration")
    rnd = random.Random(seed)
    design = tlc.DesignCheck([("MC_KvIndex", "MC_KvIndex.cfg", "KvIndex"), ("MC_Store", "MC_Store_sql.cfg", "Store/sql")], workers=3, timeout=900)
    uni = Universe(c07_universe(), symtab=kvfam.SYMTAB)
    nhist = {"quick": {"sql": 10, "lmdb": 40}, "thorough": {"sql": 120, "lmdb": 600}}[tier]
    samples = []
    points = 0
    distinct = set()
    kills = 0
    for backend in backends:
        scripts, gstats = gen.gen_store_scripts(uni, backend, 3, (), drain_each=True, workers=6)
        out.add_model(gstats)
        histories = sorted({tuple(op[1] for op in sc if op[0] == "submit" and op[1] != PROBE) for sc in scripts})
        histories = [h for h in histories if len(set(h)) == len(h) and len(h) >= 2]
        rnd.shuffle(histories)
        histories = histories[:nhist[backend]]
        per = 2 if backend == "sql" else 4
        payloads = [("c07uni", backend, histories[b:b + per], True, 6 if tier == "quick" else 0) for b in range(0, len(histories), per)]
        results = pool.map_in_workers("harness.checks.c07", "_worker", payloads, shared={"c07uni": uni})
        traces = []
        meta = []
        for res in results:
            for history, clean, counts, cases in res:
                clean_keys = [ln["keys"] for ln in clean]
                for kind, j, k, lines in cases:
                    pre = [{"a": "Step", "keys": kvproj.tla_keys(x)} for x in clean_keys[:j]]
                    tr = list(pre)
                    for ln in lines:
                        if ln["a"] in ("Fault", "Kill"):
                            tr.append({"a": ln["a"], "keys": kvproj.tla_keys(ln["keys"]), "alt": kvproj.tla_keys(clean_keys[j]), "_err": ln["err"]})
                        elif ln["a"] == "Probe":
                            tr.append({"a": "Probe", "id": ln["id"], "present": ln["present"]})
                    traces.append(tr)
                    meta.append((backend, history, kind, j, k, counts[j]))
        verdicts, vstats = tracedata.validate("KvIndex_Trace", kvfam.defs_for(uni, backend), traces, batch=150)
        out.add_model(vstats)
        for n, tr in enumerate(traces):
            backend_, history, kind, j, k, m = meta[n]
            points += 1
            kills += kind == "kill"
            out.cov["traces_validated_against_impl"] += 1
            distinct.add((backend_, history[j], k, kind))
            if len(samples) < 3 and n % 131 == 3:
                samples.append({"backend": backend_, "history": list(history), "event": history[j], "fault": kind, "at_mutation": k, "of": m,
                                "dump_after": sorted(map(list, tr[j]["keys"]), key=str)[:12]})
            mine = [b for b in verdicts[n] if b[0].startswith("C07_") or b[0].startswith("C10_")]
            if mine:
                b = mine[0]
                what = "C07 on %s: %s after %s at mutation %d/%d of %s in history %s: %s" % (
                    backend_, b[0], kind, k, m, history[j], list(history), b[2][:6])
                out.violation(what, {"formula": b[0], "backend": backend_, "kind": kind, "line": {}},
                              lambda p, tr=tr, mm=meta[n], b=b: _dump(p, mm, tr, b))
    design.join(out)
    out.cov["evaluations"] = points
    out.cov["distinct_nontrivial"] = len(distinct)
    out.cov["rule"] = ("for every history (2-3 events, TLC-generated, %s per backend) and every event of it: every storage mutation "
                       "k of the event's application (quick: first two, last two and six sampled) gets an injected engine error "
                       "(then an independent probe event must still be applied) and a process kill in a forked child followed by "
                       "reopening; a case is (backend, event, k, error|kill); all are non-trivial" % nhist)
    out.cov["samples"] = samples or [{"note": "none"}]
    out.notes["process_kills_that_reached_their_point"] = kills
    return out


def _dump(path, meta, tr, b):
    import json

    os.makedirs(os.path.dirname(path), exist_ok=True)
    with open(path, "w") as fp:
        json.dump({"meta": {"property": "C07", "backend": meta[0], "history": list(meta[1]), "fault": meta[2], "event_index": meta[3],
                            "mutation": meta[4]}, "verdict": b,
                   "trace": [{k: (sorted(map(list, v), key=str) if isinstance(v, (set, frozenset)) else v) for k, v in ln.items()} for ln in tr]},
                  fp, indent=1, default=str)
