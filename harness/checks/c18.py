"""
C18: rate limiter.  TLC model-checks the transcription of RateLimiter.is_limited / evaluate_rules / cleanup against
the contract of the property (RateLimiter.tla, MC_RateLimiter), enumerates every arrival sequence up to a depth and
hands them to the driver, which replays them on the real class with an injected clock and logs decision + complete
deque state after every call; TLC validates every run against the transcription and evaluates the contract on every
decision (RateLimiter_Trace.tla).  Long seeded sequences (sustained traffic just below a limit) go the same way.
"""
import collections
import ipaddress
import random

from .. import common as C
from .. import tlc, tracedata
from ..report import Outcome

ADDRS = ["1.1.1.1", "2.2.2.2", "3.3.3.3"]
CMDS = ["EVENT", "REQ"]
DELTAS = [0, 1, 30, 61]

RULESETS = {
    # name: (options as in the configuration file, the same as the specification's Rules value)
    "A": ({"global": {"EVENT": "3/min,2/s"}, "ip": {"EVENT": "1/s", "REQ": "2/minute"},
           "2.2.2.2": {"EVENT": "1/m"}, "3.3.3.3": {"EVENT": "-1/s"}},
          {"global": {"EVENT": [[60, 3], [1, 2]]}, "ip": {"EVENT": [[1, 1]], "REQ": [[60, 2]]},
           "2.2.2.2": {"EVENT": [[60, 1]]}, "3.3.3.3": {"EVENT": [[1, -1]]}}),
    "B": ({"ip": {"EVENT": "2/min,1/s"}},
          {"ip": {"EVENT": [[60, 2], [1, 1]]}}),
    "C": ({"global": {"EVENT": "2/min", "REQ": "1/s"}, "2.2.2.2": {"EVENT": "2/s", "REQ": "1/hour"}, "3.3.3.3": {"REQ": "-1/h"}},
          {"global": {"EVENT": [[60, 2]], "REQ": [[1, 1]]}, "2.2.2.2": {"EVENT": [[1, 2]], "REQ": [[3600, 1]]},
           "3.3.3.3": {"REQ": [[3600, -1]]}}),
    # a longer window with a smaller allowance than the shorter one (legal, unusual), three rules for one command
    "D": ({"ip": {"EVENT": "3/s,1/min"}, "global": {"REQ": "4/s,2/min,3/hour"}},
          {"ip": {"EVENT": [[60, 1], [1, 3]]}, "global": {"REQ": [[3600, 3], [60, 2], [1, 4]]}}),
    # exemptions beside limiting rules of the same command (on a longer and on a shorter interval)
    "E": ({"ip": {"EVENT": "-1/hour,2/s"}, "global": {"REQ": "2/min,-1/s"}, "3.3.3.3": {"REQ": "1/s,-1/min"}},
          {"ip": {"EVENT": [[3600, -1], [1, 2]]}, "global": {"REQ": [[60, 2], [1, -1]]}, "3.3.3.3": {"REQ": [[60, -1], [1, 1]]}}),
    # IPv6 clients whose last group is decimal digits (it must not be taken for a port), next to the address they would
    # collapse into, which has a rule of its own
    "F": ({"ip": {"EVENT": "2/min", "REQ": "1/s"}, "2001:db8::1": {"EVENT": "-1/s"}},
          {"ip": {"EVENT": [[60, 2]], "REQ": [[1, 1]]}, "2001:db8::1": {"EVENT": [[1, -1]]}},
          ["2001:db8::1:25", "2001:db8::1:26", "2001:db8::1"]),
    # a specific address whose own rule has a longer window than any per-IP rule (what cleanup() keeps must cover it)
    "G": ({"ip": {"EVENT": "3/s"}, "2.2.2.2": {"EVENT": "1/min", "REQ": "2/hour"}},
          {"ip": {"EVENT": [[1, 3]]}, "2.2.2.2": {"EVENT": [[60, 1]], "REQ": [[3600, 2]]}}),
}

GEN_EXTRA = r"""
GenEmit == Len(hist) # GenDepth \/ PrintT("@@" \o ToJson([i \in DOMAIN hist |-> <<hist[i].t, hist[i].addr, hist[i].cmd>>]))
GenBound == Len(hist) <= GenDepth
GenNext == \E a \in Addrs_def, c \in Cmds_def, d \in Deltas_def : Arrive(a, c, d)
GenSpec == Init /\ [][GenNext]_vars
"""


def rules_tla(rules):
    return {scope: {cmd: [list(r) for r in rs] for cmd, rs in cmds.items()} for scope, cmds in rules.items()}


def gen_sequences(rules, depth, timeout=900, addrs=None):
    consts = {"Addrs": set(addrs or ADDRS), "Cmds": set(CMDS), "Rules": rules_tla(rules), "Deltas": set(DELTAS), "MaxArrivals": depth}
    text = tlc.mc_module("MCRL", "RateLimiter", ["now", "dq", "hist"], consts,
                         extends=("Integers", "Sequences", "FiniteSets", "TLC", "Json"), extra="GenDepth == %d\n" % depth + GEN_EXTRA)
    with tlc.Workdir(prefix="rlgen-") as wd:
        wd.write("MCRL.tla", text)
        cfg = wd.write("MCRL.cfg", "SPECIFICATION GenSpec\nINVARIANT GenEmit\nCONSTRAINT GenBound\nCHECK_DEADLOCK FALSE\n")
        res = tlc.run_tlc(wd, "MCRL", cfg, workers=8, timeout=timeout)
    stats = tlc.parse_stats(res["out"])
    if res["rc"] != 0 or stats is None:
        raise tlc.TlcError("rate limiter sequence generation failed: " + tlc.tlc_failed_how(res["out"]))
    seqs = {}
    for h in tlc.printed_json(res["out"]):
        seqs.setdefault(tuple((x[0], x[1], x[2]) for x in h), None)
    return list(seqs), stats


def project_dq(rl, addrs=None):
    out = {k: {c: [] for c in CMDS} for k in ["global"] + list(addrs or ADDRS)}
    for key, cmds in rl.recent_commands.items():
        name = key if key == "global" else str(ipaddress.ip_address(key))
        if name not in out:
            continue
        for cmd, dq in cmds.items():
            if cmd in out[name]:
                out[name][cmd] = [int(x) for x in dq]
    return out


def replay(options, seq, cleanup_at=(), addrs=None):
    """seq: list of (t, addr, cmd) with absolute times; returns the trace"""
    from nostr_relay.rate_limiter import RateLimiter

    rl = RateLimiter(options)
    clock = [0]
    rl._starttime = 0
    rl._timestamp = lambda: clock[0]
    rl.log = _Quiet()
    tr = []
    for n, (t, addr, cmd) in enumerate(seq):
        clock[0] = t
        lim = bool(rl.is_limited(addr, [cmd, {}]))
        tr.append({"a": "Arrive", "t": t, "addr": addr, "cmd": cmd, "lim": lim, "dq": project_dq(rl, addrs)})
        if n in cleanup_at:
            rl.cleanup()
            tr.append({"a": "Cleanup", "t": t, "dq": project_dq(rl, addrs)})
    return tr


class _Quiet:
    def __getattr__(self, name):
        return lambda *a, **k: None


def long_sequences(rnd, n, length, addrs=None):
    """seeded long runs: sustained traffic just below / at / above the limits, bursts, idle gaps"""
    out = []
    ADDRS_ = list(addrs or ADDRS)
    for _ in range(n):
        t = 0
        seq = []
        style = rnd.choice(["steady1", "steady0", "burst", "mixed"])
        for _ in range(length):
            if style == "steady1":
                t += 1
            elif style == "steady0":
                t += rnd.choice([0, 1])
            elif style == "burst":
                t += rnd.choice([0, 0, 0, 61])
            else:
                t += rnd.choice(DELTAS)
            seq.append((t, rnd.choice(ADDRS_ if style == "mixed" else ADDRS_[:2]), rnd.choice(CMDS if style == "mixed" else CMDS[:1])))
        out.append(tuple(seq))
    return out


def _known_overblock(a):
    """open finding: with a global and a per-IP rule for the command, a message the IP rule refuses has already been
    recorded against the global limit, so later messages are refused although fewer than n were let through"""
    rules = a["rules"]
    ln = a["line"]
    if a["formula"] != "C18_NoOverBlock" or ln.get("a") != "Arrive":
        return False
    cmd = ln["cmd"]
    if not (cmd in rules.get("global", {}) and cmd in rules.get("ip", {})):
        return False
    # some earlier message of this command from a generic address was refused
    return any(x["a"] == "Arrive" and x["cmd"] == cmd and x["lim"] and cmd not in rules.get(x["addr"], {})
               for x in a["trace"][: a["lineno"] - 1])


def run(prop, tier, seed, **kw):
    out = Outcome("C18", tier, seed, "model_checking")
    out.add_matcher("global-limit-counts-messages-the-ip-rule-refused", _known_overblock)
    rnd = random.Random(seed)
    design = tlc.DesignCheck([("MC_RateLimiter", "MC_RateLimiter_%s.cfg" % w, "RateLimiter/" + w) for w in ("A", "B", "C", "D", "E", "G")],
                             workers=4, timeout=1800)
    depth = {"quick": 3, "thorough": 4}[tier]
    distinct = set()
    samples = []
    n_long = {"quick": 40, "thorough": 400}[tier]
    import os

    only = os.environ.get("VERIF_C18_RULESETS")
    for name, rs in RULESETS.items():
        if only and name not in only.split(","):
            continue
        options, rules = rs[0], rs[1]
        addrs = rs[2] if len(rs) > 2 else ADDRS
        seqs, gstats = gen_sequences(rules, depth, addrs=addrs)
        out.add_model(gstats)
        exhaustive_n = len(seqs)
        if tier == "quick" and len(seqs) > 7000:
            # (quick tier: a seeded half of the enumerated sequences per rule set; the thorough tier runs them all)
            seqs = sorted(seqs)
            random.Random(seed + len(name)).shuffle(seqs)
            seqs = seqs[:7000]
        longs = long_sequences(rnd, n_long, 120 if tier == "quick" else 300, addrs=addrs)
        traces = []
        for s in seqs:
            traces.append(replay(options, s, cleanup_at=(len(s) - 2,), addrs=addrs))
        for s in longs:
            traces.append(replay(options, s, cleanup_at=set(range(10, len(s), 37)), addrs=addrs))
        defs = {"TD_Addrs": set(addrs), "TD_Cmds": set(CMDS), "TD_Rules": rules_tla(rules)}
        # the exhaustive short sequences go in large batches, the long runs in small ones (one TLC per batch reads them all)
        nshort = len(seqs)
        v1, vstats = tracedata.validate("RateLimiter_Trace", defs, traces[:nshort], batch=1500 if nshort > 3000 else 400)
        v2, vstats2 = tracedata.validate("RateLimiter_Trace", defs, traces[nshort:], batch=20)
        out.add_model(vstats2)
        verdicts = dict(v1)
        verdicts.update({nshort + k: v for k, v in v2.items()})
        out.add_model(vstats)
        for k, tr in enumerate(traces):
            out.cov["evaluations"] += 1
            out.cov["traces_validated_against_impl"] += 1
            if any(ln.get("lim") for ln in tr):
                distinct.add((name, k))
            if len(samples) < 3 and k % 211 == 17:
                samples.append({"rules": options, "trace": tr[:8]})
            for b in verdicts[k]:
                ln = tr[b[1] - 1]
                attrs = {"formula": b[0], "line": ln, "rules": rules, "trace": tr, "lineno": b[1], "ruleset": name}
                what = "C18 rules %s: %s at call %d %s (history: %s)" % (
                    name, b[0], b[1], {k2: v for k2, v in ln.items() if k2 != "dq"},
                    [(x.get("t"), x.get("addr"), x.get("cmd"), x.get("lim")) for x in tr[max(0, b[1] - 8):b[1]]])
                if out.violation(what, attrs, lambda p, tr=tr, b=b, options=options: _dump(p, options, tr, b)):
                    break
        out.notes.setdefault("sequences", {})[name] = {"exhaustive_to_depth_%d" % depth: exhaustive_n, "long_seeded": len(longs)}
    design.join(out)
    out.cov["distinct_nontrivial"] = len(distinct)
    out.cov["rule"] = ("every arrival sequence of length %d over 3 addresses x 2 commands x clock steps {0,1,30,61} s enumerated by TLC "
                       "for 5 rule sets (global+ip+specific+exempt; ip only; global+specific; longer window with smaller allowance; exemptions beside limiting rules), plus seeded long runs (sustained "
                       "traffic at / just below the limits, bursts), each replayed on the real RateLimiter with cleanup() calls "
                       "interleaved; a case is (rule set, sequence); non-trivial = some message was refused" % depth)
    out.cov["samples"] = samples or [{"note": "none"}]
    out.cov["exhaustive"] = tier != "quick"
    return out


def _dump(path, options, tr, b):
    import json
    import os

    os.makedirs(os.path.dirname(path), exist_ok=True)
    with open(path, "w") as fp:
        json.dump({"meta": {"property": "C18", "rules": options}, "verdict": b, "trace": tr}, fp, indent=1)
