"""
Query checks C01 (soundness, filters are data), C02 (completeness, multiplicity), C12 (limit) and C11 (relations
between answers).  Stores are built by histories of accepted events (including a replacement and a deletion);
every filter of a grammar over the universe's own and foreign symbols is sent through the REQ path
(storage.subscribe ... EOSE); each answer becomes a Query line of a Store_Trace trace and TLC evaluates the
clauses of Query.tla on it against the store the trace itself established.
"""
import itertools
import random

from .. import common as C
from .. import pool, trace
from ..report import Outcome
from ..universe import Universe
from .storefam import E, _pub

BACKENDS = ("sql", "lmdb")


def query_universe():
    return [
        E("q1", "A", 1, 10, [["t", "a"]]),
        E("q2", "A", 1, 20, [["t", "ab"], ["e", "q1"]]),
        E("q3", "B", 1, 20, [["t", "abc"], ["p", "A"]]),
        E("q4", "B", 7, 30, [["t", "a"], ["e", "q1"], ["p", "A"]]),
        E("q5", "A", 2, 40, [["t", "a"]]),
        E("q6", "B", 1, 50, [["delegation", "A"], ["t", "ab"]]),
        E("q7", "C", 1, 60, [["t", "a"], ["t", "ab"]], id_prefix="ff"),
        E("q8", "C", 7, 10, [["p", "B"]], id_prefix="00"),
        E("q9", "A", 7, 30, [["t", "abc"], ["p", "B"]]),
        E("r1", "A", 10000, 15, [["t", "a"]]),
        E("r2", "A", 10000, 45, [["t", "a"]]),
        E("dq", "A", 5, 55, [["e", "q5"]]),
        E("qq", "B", 1, 35, [["@qt", "a"], ["@bs", "ab"], ["@dq", "a"]]),
        E("qm", "C", 1, 25, [["e", "q1"], ["e", "q2"], ["p", "A"], ["t", "a"], ["t", "ab"], ["t", "a"]]),   # the reply shape: several listed values of one name
    ]


QUERY_SYMTAB = {"qt": "'", "bs": "\\", "dq": '"'}


HISTORIES = [
    ["q1", "q2", "q3", "q4", "q5", "q6", "q7", "q8", "q9", "r1", "r2", "dq", "qq", "qm"],   # r1 replaced, q5 deleted
    ["q7", "q3", "q2", "q6", "qm"],
    ["q1", "q4", "q9", "q8", "r2", "r1"],
    ["q1", "q2", "q3"],
    ["q8", "q7"],
]


def base_filters():
    ids = [None, ["q1"], ["q1", "q7"], ["zz"], ["q7", "q8"], ["q5", "r1", "q2"]]
    authors = [None, ["A"], ["B"], ["A", "B"], ["D"], ["C", "A"]]
    kinds = [None, [1], [7], [1, 7], [0], [2], [1, 2, 7], [10000, 5]]
    tags = [None, {"t": ["a"]}, {"t": ["ab"]}, {"t": ["a", "abc"]}, {"e": ["q1"]}, {"p": ["A"]}, {"t": ["a"], "p": ["A"]},
            {"t": ["zzz"]}, {"p": ["A", "B"]}, {"e": ["q1"], "t": ["ab"]}, {"@qt": ["a"]}, {"@bs": ["ab", "a"]}, {"@dq": ["a"]},
            {"t": ["a", "ab"], "p": ["A"]}, {"e": ["q1", "q2"], "p": ["A", "B"]}]
    return ids, authors, kinds, tags


TIMES_QUICK = [{}, {"since": 19}, {"since": 20}, {"until": 20}, {"until": 21}, {"since": 19, "until": 31}, {"since": 20, "until": 20},
               {"since": 31, "until": 19}, {"since": 9}, {"until": 61}]
TIMES_FULL = [dict(([("since", s)] if s is not None else []) + ([("until", u)] if u is not None else []))
              for s in (None, 9, 19, 20, 21, 45, 61) for u in (None, 9, 19, 20, 21, 31, 60, 61)]


def mk_filter(i, a, k, t, tm, limit=None):
    f = {}
    if i is not None:
        f["ids"] = i
    if a is not None:
        f["authors"] = a
    if k is not None:
        f["kinds"] = k
    if t is not None:
        f["tags"] = t
    f.update(tm)
    if limit is not None:
        f["limit"] = limit
    return f


def grammar(tier, rnd, limits=(None,), max_fields=2):
    ids, authors, kinds, tags = base_filters()
    times = TIMES_QUICK if tier == "quick" else TIMES_FULL
    out = []
    for i, a, k, t in itertools.product(ids, authors, kinds, tags):
        nset = sum(x is not None for x in (i, a, k, t))
        if nset > max_fields:
            continue
        for tm in times:
            if nset == 0 and not tm:
                continue
            for lim in limits:
                out.append(mk_filter(i, a, k, t, tm, lim))
    # `since: 0` (the Unix epoch itself) beside another condition restricts nothing; `until: 0` leaves nothing
    for lim in limits:
        for cond in ({"kinds": [1]}, {"authors": ["A"]}, {"tags": {"t": ["a"]}}, {"ids": ["q1", "q7"]}, {"authors": ["A", "B"], "kinds": [1, 7]}):
            out.append(dict(cond, since=-C.T0, **({"limit": lim} if lim is not None else {})))
            out.append(dict(cond, since=-C.T0, until=31, **({"limit": lim} if lim is not None else {})))
            out.append(dict(cond, until=-C.T0, **({"limit": lim} if lim is not None else {})))
    # wide author x kind products beside a multi-value tag condition: the LMDB planner then walks the author+kind index first and
    # the tag index second, restricted to the candidates (events carrying two of the requested values are met twice there)
    out += wide_filters(limits)
    # a seeded sample of the rest of the product (3 and 4 fields)
    rest = [c for c in itertools.product(ids, authors, kinds, tags) if sum(x is not None for x in c) > max_fields]
    rnd.shuffle(rest)
    for c in rest[: (150 if tier == "quick" else 1500)]:
        out.append(mk_filter(*c, rnd.choice(times), rnd.choice(limits)))
    return out


def wide_filters(limits=(None,)):
    out = []
    kinds6 = [1, 2, 5, 7, 10000, 30000]
    for authors in (["C", "A"], ["A", "B"], ["A", "B", "C"]):
        for tags in ({"t": ["a", "ab"]}, {"t": ["a", "abc"]}, {"t": ["ab", "a", "abc"]}, {"e": ["q1", "q2"]}, {"t": ["a", "ab"], "p": ["A", "B"]}):
            for tm in ({}, {"since": 19}, {"until": 31}):
                for lim in limits:
                    out.append(mk_filter(None, authors, kinds6, tags, tm, lim))
    return out


def multi_filter_reqs(filters, rnd, n):
    # (the wide filters stay single: several of them in one REQ match the same events many times over, and the attribution of
    #  answer items to filters that LimitOK quantifies over grows beyond what TLC will enumerate)
    filters = [f for f in filters if len(f.get("kinds", [])) < 6]
    out = []
    for _ in range(n):
        k = rnd.choice([2, 2, 3, 5])
        out.append([rnd.choice(filters) for _ in range(k)])
    return out


NOCOERCE = [{}, [], [None], [[]], [{}], ["x"], [""], "x", "", {"a": 1}, [1.5], "' OR 1=1 --", ["' OR 1=1 --"], ["%"], ["_"], ["\x00"],
            None, [["a"]], [-1], [2 ** 64]]


def malformed_reqs(uni):
    """
    Typed mutations of well-formed filters.  Each yields (concrete filter list, abstract filter list): the abstract
    filter is the well-formed remainder (the mutated field dropped), which bounds what may be served whether the relay
    drops the whole filter, ignores the bad field or coerces it; only soundness (C01) is judged on these lines.
    """
    hexid = uni.conc_value("q1")
    base_abs = {"kinds": [1], "tags": {"t": ["a"]}, "authors": ["A"], "ids": ["q1"], "since": 9, "until": 61}
    junk = [None, True, 0, -1, 1.5, 2 ** 64, "", "x", {}, [], [None], [1.5], [[]], [{}], ["x"], [""], [True], [2 ** 64], [-1],
            [hexid[:10]], [hexid.upper()], [hexid + "00"], ["zz" * 32], [["a"]], {"a": 1}, "' OR 1=1 --", ["' OR 1=1 --"],
            ["\x00"], ["%"], ["_"], [hexid, 5]]
    fields = {"ids": "ids", "authors": "authors", "kinds": "kinds", "since": "since", "until": "until", "limit": None,
              "#t": ("tags", "t"), "search": None}
    out = []
    for key, ab in fields.items():
        for j in junk:
            conc = uni.conc_filter(base_abs)
            conc[key] = j
            a = {k: v for k, v in base_abs.items()}
            if isinstance(ab, tuple):
                a = dict(a)
                a["tags"] = {}
                del a["tags"]
            elif ab is not None:
                a.pop(ab, None)
            # an empty list matches nothing (NIP-01), whatever the other conditions say; any other junk is bounded by the remainder
            out.append(([conc], [{"ids": []}] if j == [] and key in ("ids", "authors", "kinds", "#t") else [a]))
            # the mutated field alone, for junk that has no sensible coercion into a value some event carries:
            # nothing else constrains the answer, so only an empty answer is sound
            if key in ("ids", "authors", "kinds", "#t") and any(j is x or (type(j) is type(x) and j == x) for x in NOCOERCE):
                out.append(([{key: j}], [{"ids": []}]))
    # near misses: well-typed strings that are not the id / pubkey of any event but differ from one only past the 64th
    # character or in the last digit.  NIP-01 compares ids and authors exactly (prefixes aside), so whatever
    # the relay makes of such a value, an event may not be served for it.
    for key, base in (("ids", hexid), ("authors", C.pubkey("A")), ("authors", C.pubkey("B"))):
        flip = base[:-1] + ("0" if base[-1] != "0" else "1")
        for v in [base + "0", base + "a", base + "f", base + "00", base + "000", base + "0" * 64, flip]:      # (not base.upper(): the same 32 bytes in another letter case - the relay lower-cases hex, which is not a mismatch)
            out.append(([{key: [v]}], [{"ids": []}]))
            out.append(([{key: [v], "kinds": [1, 7]}], [{"ids": []}]))
            out.append(([{key: [v, "ee" * 32]}], [{"ids": []}]))
    # an id list that mixes a stored id with an over-long one, beside a condition the stored event fails: the other conditions
    # of the filter bind to every alternative of the list, not only to the last one
    for other, ab in (({"kinds": [7]}, {"kinds": [7]}), ({"authors": [C.pubkey("B")]}, {"authors": ["B"]}), ({"since": C.T0 + 50}, {"since": 50}),
                      ({"#t": ["zzz"]}, {"tags": {"t": ["zzz"]}}), ({"until": C.T0 + 5}, {"until": 5})):
        for extra in (hexid + "00", hexid[:-1] + "0" + "f" * 10, "ee" * 40):
            for order in ((hexid, extra), (extra, hexid)):
                out.append(([dict({"ids": list(order)}, **other)], [dict({"ids": ["q1"]}, **ab)]))
    # unknown / odd keys, user-supplied `tags`, # keys of other lengths, non-dict filters
    odd = [{"tags": [["t", ["a"]]], "kinds": [1]}, {"#": ["a"], "kinds": [1]}, {"#tt": ["a"], "kinds": [1]}, {"# ": ["a"], "kinds": [1]},
           {"foo": 1, "kinds": [1]}, {"#t": "a", "kinds": [1]}, {"kinds": [1], "#t": [["a"]]}, {"kinds": [1], "#t": [{"a": 1}]},
           {"kinds": [1], "__class__": "x"}, {"kinds": [1], "model_config": {}}, {"kinds": [1], "limit": None},
           {"kinds": [1], "since": None}, {"kinds": [1], "ids": None}]
    for o in odd:
        out.append(([o], [{"kinds": [1]}]))
    for nd in [5, "x", [], None, True, [1, 2], "{}", 1.5]:
        out.append(([nd], [{"ids": []}]))
        out.append(([nd, uni.conc_filter({"kinds": [7]})], [{"ids": []}, {"kinds": [7]}]))
    out.append(([], []))
    out.append(([{}], [{"ids": []}]))
    return out


def spelling_reqs(uni):
    """
    Hex is case-insensitive to a decoder: a filter whose ids / authors are spelled with upper-case digits names the same
    32-byte values (the relay lower-cases them), so it must be answered like its lower-case spelling.  Every assignment of
    {lower, upper} to the elements of multi-value ids / authors lists (the order a backend sorts them in must not depend
    on the spelling), alone and with a kind.  Yields (concrete filter list, abstract filter list); all clauses are judged.
    """
    lists = [("authors", x) for x in (["A", "B"], ["C", "A"], ["C", "D"], ["D", "C"], ["A", "C", "D"], ["B", "C"], ["C"])] + \
            [("ids", x) for x in (["q1", "q7"], ["q7", "q8"], ["q5", "r1", "q2"], ["q3", "q6", "q9"], ["q2"])]
    out = []
    for key, syms in lists:
        for mask in range(1, 2 ** len(syms)):
            for extra in ({}, {"kinds": [1]}, {"since": 9}):
                ab = dict({key: list(syms)}, **extra)
                conc = uni.conc_filter(ab)
                conc[key] = [v.upper() if mask >> k & 1 else v for k, v in enumerate(conc[key])]
                out.append(([conc], [ab]))
    return out


def build_scripts(histories, reqs, per_script=150):
    scripts = []
    for h in histories:
        pre = []
        for s in h:
            pre.append(("submit", s))
            pre.append(("drain",))
        for b in range(0, len(reqs), per_script):
            scripts.append(tuple(pre) + tuple(("query", fs) for fs in reqs[b:b + per_script]))
    return scripts


def lmdb_plan_kinds(reqs_conc):
    """which index the LMDB planner picks, for coverage accounting (harness-side call of kv.planner)"""
    from nostr_relay.storage import kv

    counts = {}
    for fs in reqs_conc:
        try:
            plans = kv.planner([dict(f) for f in fs])
        except Exception:
            continue
        for p in plans:
            name = type(p.index).__name__
            if name == "MultiIndex":
                name = "MultiIndex(" + ",".join(type(i[0]).__name__ for i in p.index.indexes) + ")"
            counts[name] = counts.get(name, 0) + 1
    return counts


# ---- known findings ---------------------------------------------------------------------------------

def _missing_only_delegated(a):
    """open finding C02/lmdb-authors-ignores-delegation: TLC itself establishes that the answer is complete for a
    relay that does not consult delegation tags (Query.tla CompleteOwn) and names the verdict accordingly"""
    return a["backend"] == "lmdb" and a["formula"] == "C02_Complete_OnlyDelegatedMissing"


def _sql_single_limit_applied(a, max_limit=3):
    """the SQL statement carries one LIMIT for the OR of all filters: the last filter's, capped at max_limit"""
    fs = a["line"]["fs"]
    last = fs[-1].get("limit") if fs else None
    return max_limit if last is None else min(last, max_limit)


def _sql_one_limit(a):
    """open finding sql-one-limit-for-all-filters, recognised precisely: a REQ with several filters on the SQL backend whose
    recorded answer is exactly what the single statement `... WHERE (f1) OR (f2) ... ORDER BY created_at DESC LIMIT <last filter's>`
    means (TLC: Query!SqlModel holds, i.e. no SqlModelDeviation marker on the line).  Any other wrong answer is reported."""
    fs = a["line"]["fs"]
    return a["backend"] == "sql" and a["formula"] in ("C12_Limit", "C02_Complete") and len(fs) >= 2 and a.get("sqlmodel", False)


def _multi_key(f):
    n_tag_keys = sum(len(v) for v in f.get("tags", {}).values())
    fields = [len(f[k]) for k in ("ids", "authors", "kinds") if k in f]
    if "authors" in f and "kinds" in f and len(f["authors"]) * len(f["kinds"]) > 1:
        return True
    if any(n > 1 for n in fields) or n_tag_keys > 1:
        return True
    # chained multi-index: tags together with authors/kinds
    return bool(f.get("tags")) and ("authors" in f or "kinds" in f) and "ids" not in f


def _lmdb_multivalue(a):
    return a["backend"] == "lmdb" and a["formula"] == "C12_Limit" and any(_multi_key(f) for f in a["line"]["fs"])


MATCHERS = {
    "C02": {"lmdb-authors-ignores-delegation": _missing_only_delegated,
            "sql-one-limit-for-all-filters": lambda a: a.get("limited") and _sql_one_limit(a),
            "sql-nul-in-tag-value": lambda a: (a["backend"] == "sql" and a["formula"] == "C02_Complete" and a["palette"] == "nul"
                                               and any(f.get("tags") for f in a["line"]["fs"]))},
    "C12": {"lmdb-authors-ignores-delegation": lambda a: a["backend"] == "lmdb" and a["formula"] == "C12_Limit_OnlyDelegatedMissing",
            "sql-one-limit-for-all-filters": _sql_one_limit, "lmdb-multivalue-scan-not-globally-newest": _lmdb_multivalue},
}


def _store_before(tr, lineno):
    post = set()
    for ln in tr[: lineno - 1]:
        if "post" in ln:
            post = set(ln["post"])
    return post


def run(prop, tier, seed, backends=BACKENDS, only_universe=None):
    out = _run(prop, tier, seed, backends, limited=(prop == "C12"))
    if prop == "C02":
        # "when under its limit": the same formulas on answers to filters that carry explicit limits, max_limit = 3
        from ..report import merge

        out = merge([out, _run(prop, tier, seed, backends, limited=True)])
    return out


def _shape(f):
    return "+".join(sorted([k for k in ("ids", "authors", "kinds", "since", "until") if k in f] + ["#" + n for n in f.get("tags", {})]))


def _skeleton_check(out, jobs):
    """C01 'filters are pure data': TLC evaluates Query.tla StatementsAreData on the <<shape, skeleton>> pairs observed"""
    from .. import tlc

    skel_ids = {}
    pairs = set()
    examples = {}
    for js in jobs:
        for tr in js["traces"]:
            for ln in tr:
                if ln["a"] != "Query" or ln.get("_raw") or len(ln["fs"]) != 1 or ln.get("_skel") is None:
                    continue
                shape = js["backend"] + ":" + _shape(ln["fs"][0])
                sid = skel_ids.setdefault(ln["_skel"], len(skel_ids) + 1)
                pairs.add((shape, sid))
                examples.setdefault((shape, sid), (js["palette"], ln["fs"], js["uni"].conc_filter(ln["fs"][0]), ln["_skel"]))
    if not pairs:
        raise tlc.TlcError("no statement skeletons were observed (the spy did not see any statement)")
    text = ("---- MODULE SkelCheck ----\nEXTENDS Integers, Sequences, FiniteSets, TLC, Json\nCONSTANTS Universe, MaxLimit, OneCharNames\n"
            "INSTANCE Query\nP == %s\nASSUME PrintT(\"@@\" \\o ToJson([ok |-> StatementsAreData(P), bad |-> OffendingShapes(P)]))\n"
            "VARIABLE x\nSpec == x = 0 /\\ [][x' = x]_x\n====\n" % tlc.tla(pairs))
    with tlc.Workdir(prefix="skel-") as wd:
        wd.write("SkelCheck.tla", text)
        cfg = wd.write("SkelCheck.cfg", "SPECIFICATION Spec\nCONSTANT Universe = {}\nCONSTANT MaxLimit = 0\nCONSTANT OneCharNames = {}\n")
        res = tlc.run_tlc(wd, "SkelCheck", cfg, workers=1, timeout=300)
    verdict = list(tlc.printed_json(res["out"]))
    if not verdict:
        raise tlc.TlcError("skeleton check failed to run: " + tlc.tlc_failed_how(res["out"]))
    out.notes["statement_skeletons"] = {"pairs": len(pairs), "shapes": len({p[0] for p in pairs}), "distinct_skeletons": len(skel_ids)}
    if not verdict[0]["ok"]:
        for shape in verdict[0]["bad"]:
            exs = [examples[p] for p in pairs if p[0] == shape][:3]
            what = ("C01 StatementsAreData violated for filter shape %s: the statement handed to the storage engine depends on "
                    "the filter's values: %s" % (shape, [(e[0], e[2], e[3][:300]) for e in exs]))
            out.violation(what, {"formula": "C01_StatementsAreData", "shape": shape, "backend": shape.split(":")[0], "line": {}},
                          lambda p, exs=exs, shape=shape: _dump_skel(p, shape, exs))


def _dump_skel(path, shape, exs):
    import json
    import os

    os.makedirs(os.path.dirname(path), exist_ok=True)
    with open(path, "w") as fp:
        json.dump({"meta": {"property": "C01", "formula": "StatementsAreData", "shape": shape},
                   "examples": [{"palette": e[0], "abstract": e[1], "concrete": e[2], "skeleton": e[3]} for e in exs]}, fp, indent=1, default=str)


def _run(prop, tier, seed, backends, limited):
    out = Outcome(prop, tier, seed, "exploration" if prop == "C01" else "model_checking")
    for key, fn in MATCHERS.get(prop, {}).items():
        out.add_matcher(key, fn)
    rnd = random.Random(seed)
    own = {"C01": ("C01_", "Garbage"), "C02": ("C02_",), "C12": ("C12_",)}[prop]
    if limited:
        max_limit = 3
        limits = (None, 0, 1, 2, 3, 4, 1000000000)
        config = {"max_limit": max_limit}
        filters = grammar(tier, rnd, limits=limits, max_fields=1 if tier == "quick" else 2)
        if prop == "C02":
            filters = filters[::2] if tier == "quick" else filters
    else:
        max_limit = 6000
        config = {}
        filters = grammar(tier, rnd)
    import os
    palettes = os.environ["VERIF_PALETTES"].split(",") if os.environ.get("VERIF_PALETTES") else ["plain"] if limited else (["plain", "quotes"] if tier == "quick" else ["plain", "quotes", "py", "unicode", "nul"]) if prop == "C02" else ["plain"] if prop != "C01" else (["plain", "quotes", "sql", "py", "nul", "unicode"] if tier == "thorough" else ["plain", "quotes", "py", "nul"])
    reqs = [[f] for f in filters] + multi_filter_reqs(filters, rnd, 300 if tier == "quick" else 3000)
    if limited:
        # one REQ asking the same conditions twice under different limits (the smaller first, and the other way round)
        same = [f for f in filters if "limit" not in f and (f.get("kinds") or f.get("authors") or f.get("tags"))]
        rnd_s = random.Random(seed + 3)
        for f in rnd_s.sample(same, min(len(same), 40 if tier == "quick" else 400)):
            for la, lb in ((1, None), (0, 3), (None, 1), (2, 1)):
                reqs.append([dict(f, **({"limit": la} if la is not None else {})), dict(f, **({"limit": lb} if lb is not None else {}))])
    histories = HISTORIES if tier == "thorough" else HISTORIES[:3]
    scripts = build_scripts(histories, reqs)
    # thorough tier: the full grammar (all window combinations) under the first palette, the quick grammar under the others
    # (the string domain and the window grid are independent dimensions; their full product ran for hours)
    scripts_light = scripts
    if tier == "thorough" and not limited:
        rnd2 = random.Random(seed + 1)
        light = grammar("quick", rnd2)
        scripts_light = build_scripts(histories, [[f] for f in light] + multi_filter_reqs(light, rnd2, 300))
    jobs = []
    n_malformed = 0
    for pal in palettes:
        uni = Universe(query_universe(), palette=pal, symtab=QUERY_SYMTAB)
        sc = scripts if pal == palettes[0] else scripts_light
        if prop == "C01" and pal in ("plain", "quotes"):
            mal = malformed_reqs(uni)
            n_malformed = len(mal)
            pre = tuple(x for s_ in HISTORIES[0] for x in (("submit", s_), ("drain",)))
            sc = sc + [pre + tuple(("rawquery", c, a) for c, a in mal[b:b + 150]) for b in range(0, len(mal), 150)]
        if prop == "C02" and not limited and pal == palettes[0]:
            spell = spelling_reqs(uni)
            sc = sc + [tuple(x for s_ in h for x in (("submit", s_), ("drain",))) + tuple(("rawquery", c, a) for c, a in spell)
                       for h in histories[:2]]
        if prop in ("C02", "C12") and pal == palettes[0]:
            # through the connection handler: a seeded sample of the REQs on one connection per script, two subscription ids
            # re-used over and over without CLOSE (each REQ replaces a subscription that has been answered already, and
            # most answers overlap with the previous one under the same id)
            rw = random.Random(seed + 7)
            sample = [reqs[k] for k in sorted(rw.sample(range(len(reqs)), min(len(reqs), 240 if tier == "quick" else 2400)))]
            for h in histories[:2]:
                pre = tuple(x for s_ in h for x in (("submit", s_), ("drain",)))
                sc = sc + [pre + tuple(("wsquery", fs, "feed" if n % 3 else "other") for n, fs in enumerate(sample[b:b + 120]))
                           for b in range(0, len(sample), 120)]
        if prop == "C12" and pal == palettes[0]:
            # the limit written as something other than a JSON integer (4.0, 1e1, "4", 1e9, "1000000000"): whatever the relay
            # makes of the spelling, no more than max_limit events may come back (judged as the integer the spelling denotes)
            spell = []
            for f in ({"kinds": [1]}, {"authors": ["A"]}, {"tags": {"t": ["a"]}}, {"kinds": [1, 7], "since": 9}):
                for conc_lim, abs_lim in ((4.0, 4), (1e1, 10), ("4", 4), (1e9, 1000000000), ("1000000000", 1000000000), (2.0, 2), ("2", 2), (True, 1)):
                    conc = uni.conc_filter(f)
                    conc["limit"] = conc_lim
                    spell.append(([conc], [dict(f, limit=abs_lim)]))
            pre = tuple(x for s_ in histories[0] for x in (("submit", s_), ("drain",)))
            sc = sc + [pre + tuple(("rawquery", c, a) for c, a in spell)]
            # answers during which the engine fails transiently at the k-th fetch of rows: cut short perhaps, never longer than
            # the limit and never an event twice
            rf = random.Random(seed + 11)
            fsample = [r for r in reqs if len(r) == 1 and r[0].get("limit") in (1, 2, 3, 4)]
            fsample = [fsample[k] for k in sorted(rf.sample(range(len(fsample)), min(len(fsample), 150 if tier == "quick" else 1500)))]
            pre = tuple(x for s_ in histories[0] for x in (("submit", s_), ("drain",)))
            sc = sc + [pre + tuple(("fquery", fs, 1 + n % 4) for n, fs in enumerate(fsample[b:b + 75])) for b in range(0, len(fsample), 75)]
        for backend in backends:
            jobs.append({"uni": uni, "backend": backend, "scripts": sc, "palette": pal, "max_limit": max_limit})
    import os
    if prop == "C01":
        os.environ["VERIF_SPY_SKELETONS"] = "1"
    try:
        all_traces = pool.run_many(jobs, config=config, chunk=2)
    finally:
        os.environ.pop("VERIF_SPY_SKELETONS", None)
    for js, traces in zip(jobs, all_traces):
        js["traces"] = traces
    results = trace.validate_many(jobs, batch=4)
    distinct = set()
    samples = []
    other = {}
    nq = 0
    for js, (verdicts, vstats) in zip(jobs, results):
        out.add_model(vstats)
        uni, backend = js["uni"], js["backend"]
        for k, tr in enumerate(js["traces"]):
            out.cov["traces_validated_against_impl"] += 1
            for n, ln in enumerate(tr):
                if ln["a"] != "Query":
                    continue
                nq += 1
                if ln["res"]:
                    distinct.add((backend, repr(ln["fs"]), tuple(sorted(_store_before(tr, n + 1)))))
                if len(samples) < 4 and ln["res"] and nq % 997 == 3:
                    samples.append({"backend": backend, "palette": js["palette"], "store": sorted(_store_before(tr, n + 1)),
                                    "filters": ln["fs"], "concrete": [uni.conc_filter(f) for f in ln["fs"]], "answer": ln["res"]})
            off_model = {b[1] for b in verdicts[k] if b[0] == "SqlModelDeviation"}
            for b in verdicts[k]:
                if not b[0].startswith(own):
                    other[b[0]] = other.get(b[0], 0) + 1
                    continue
                ln = tr[b[1] - 1]
                store = _store_before(tr, b[1])
                attrs = {"backend": backend, "formula": b[0], "line": _pub(ln), "uni": uni, "store": store, "palette": js["palette"],
                         "limited": limited, "sqlmodel": backend == "sql" and b[1] not in off_model}
                what = "%s on %s (palette %s): %s violated by answer %s to filters %s%s over store %s" % (
                    prop, backend, js["palette"], b[0], ln["res"], ln["fs"],
                    " (sent as %r)" % (ln["_conc"],) if ln.get("_raw") else "", sorted(store))
                out.violation(what, attrs, lambda p, uni=uni, tr=tr, b=b, backend=backend, ln=ln, store=store:
                              trace.dump_replay(p, {"property": prop, "backend": backend, "line": b[1], "store": sorted(store),
                                                    "concrete_filters": [uni.conc_filter(f) for f in ln["fs"]]},
                                                uni, [x for x in tr[:b[1]] if x["a"] != "Query"] + [ln], [b]))
    if prop == "C01":
        _skeleton_check(out, jobs)
    out.cov["evaluations"] = nq
    out.cov["distinct_nontrivial"] = len(distinct)
    out.cov["rule"] = ("every filter of the grammar (ids x authors x kinds x tag conditions with at most two of them set, x since/until at "
                       "grid-1/grid/grid+1, plus a seeded sample of 3- and 4-field conjunctions and of 2-5 filter REQs%s) over %d "
                       "histories of a 12-event universe (id prefixes ff/00, equal timestamps, tag values that are prefixes of one "
                       "another, a delegated, a replaced and a deleted event), sent through storage.subscribe on both backends%s; "
                       "a case is (backend, filter list, store); non-trivial = the answer is not empty"
                       % (", x limits %s with max_limit=%d" % (list(limits), max_limit) if limited else "",
                          len(histories), ", under palettes %s" % palettes if prop == "C01" else ""))
    out.cov["samples"] = samples or [{"note": "no non-empty answer sampled"}]
    out.notes["violations_of_other_properties_seen"] = other
    out.notes["palettes"] = palettes
    out.notes["malformed_filter_requests_per_palette"] = n_malformed
    return out
