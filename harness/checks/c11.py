"""
C11: query answers are unaffected by unrelated data and monotone in the filter.  Stores S and S + N are built from
seeded splits of a universe that contains byte-order neighbours of everything the filters ask for; every filter of
the grammar is answered over both through the REQ path; the answers are paired into Unaffected / Mono / Union lines
whose preconditions and conclusions TLC evaluates (Pairs_Trace.tla).
"""
import asyncio
import random

from .. import common as C
from .. import pool, tracedata
from ..report import Outcome
from ..universe import Universe, abs_filter_tla
from .storefam import E
from . import queryfam

BACKENDS = ("sql", "lmdb")


def neighbour_universe():
    base = queryfam.query_universe()
    extra = [
        E("k0", "A", 0, 12, [["t", "a"]]),            # previous kind of 1
        E("k6", "B", 6, 22, [["t", "a"]]),            # previous kind of 7
        E("k8", "B", 8, 26, [["t", "ab"]]),           # next kind of 7
        E("ta", "C", 1, 20, [["t", "aa"]]),           # values extending / sorting next to the requested ones
        E("tb", "C", 1, 30, [["t", "abcd"], ["t", "b"]]),
        E("s1", "D", 1, 20, [["t", "x"]], id_prefix="00"),   # same timestamp, smallest / largest ids
        E("s2", "D", 1, 20, [["t", "x"]], id_prefix="ff"),
        E("s3", "D", 7, 30, [["e", "q2"], ["p", "B"]], id_prefix="fe"),
        E("u1", "D", 1, 19, [["t", "a"]]),            # just outside / on the window bounds used by the grammar
        E("u2", "D", 1, 21, [["t", "a"]]),
        E("u3", "D", 1, 31, [["t", "abc"]]),
    ]
    return base + extra


def _worker(payload):
    backend, sa, sb, reqs = payload
    from .. import storedrv as D

    uni = Universe(neighbour_universe(), symtab=queryfam.QUERY_SYMTAB)

    async def answers(order):
        with C.Scratch() as d:
            st = await D.open_storage(backend, d if backend == "lmdb" else None)
            try:
                script = []
                for s in order:
                    script += [("submit", s), ("drain",)]
                # (a request given as ("raw", concrete filters, abstract filters) is sent in exactly that spelling)
                lines = await D.run_script(st, backend, uni, script + [("rawquery", fs[1], fs[2]) if isinstance(fs, tuple) else ("query", fs)
                                                                       for fs in reqs])
            finally:
                await D.close_storage(st)
        store = set()
        for ln in lines:
            if "post" in ln:
                store = set(ln["post"])
        return store, [ln["res"] for ln in lines if ln["a"] == "Query"]

    async def main():
        return await answers(sa), await answers(sb)

    return asyncio.run(main())


def narrowings(filters, rnd, n):
    """pairs (f, g) with g = f plus a condition / a narrower window, both from the grammar's vocabulary"""
    ids, authors, kinds, tags = queryfam.base_filters()
    out = []
    for _ in range(n):
        f = dict(rnd.choice(filters))
        g = dict(f)
        how = rnd.choice(["field", "since", "until", "subset", "field"])
        if how == "field":
            opts = [("ids", ids), ("authors", authors), ("kinds", kinds), ("tags", tags)]
            k, vals = rnd.choice(opts)
            v = rnd.choice([x for x in vals if x is not None])
            if k == "tags":
                t = dict(g.get("tags", {}))
                for name, vs in v.items():
                    t[name] = [x for x in t.get(name, vs) if x in vs] or vs if name in t else vs
                g["tags"] = t
            elif k not in g:
                g[k] = v
            else:
                g[k] = [x for x in g[k] if x in v] or g[k]
        elif how == "since":
            g["since"] = max(f.get("since", 0), rnd.choice([9, 19, 20, 21, 30]))
        elif how == "until":
            g["until"] = min(f.get("until", 99), rnd.choice([61, 31, 21, 20, 19]))
        else:
            for k in ("ids", "authors", "kinds"):
                if k in g and len(g[k]) > 1:
                    g[k] = g[k][:1]
        out.append((f, g))
    return out


def run(prop, tier, seed, **kw):
    out = Outcome("C11", tier, seed, "model_checking")
    rnd = random.Random(seed)
    uni = Universe(neighbour_universe(), symtab=queryfam.QUERY_SYMTAB)
    syms = list(uni.order)
    filters = [f for f in queryfam.grammar(tier, rnd) if "limit" not in f]
    if tier == "quick":
        rnd.shuffle(filters)
        filters = filters[:700]
    filters += [f for f in queryfam.wide_filters() if f not in filters]
    pairs = narrowings(filters, rnd, 500 if tier == "quick" else 6000)
    # time-only filters whose bounds are stored timestamps, narrowed by one condition: the bare window is served by the
    # created_at range scan, the narrowed one by an index scan - their treatment of the bounds must not make g exceed f
    for tm in ({"since": 20}, {"until": 20}, {"since": 20, "until": 21}, {"since": 20, "until": 20}, {"until": 30}, {"since": 30},
               {"since": 19, "until": 31}, {"since": 10, "until": 60}):
        for cond in ({"authors": ["D"]}, {"authors": ["A", "B"]}, {"kinds": [1]}, {"kinds": [1, 7]}, {"tags": {"t": ["a"]}},
                     {"tags": {"t": ["x"]}}, {"authors": ["D"], "kinds": [1]}, {"ids": ["s1", "s2", "q2"]}):
            pairs.append((dict(tm), dict(tm, **cond)))
    # every filter that takes part in a pair or a union must be answered
    multi = [f for f in filters if any(len(f.get(k, [])) > 1 for k in ("ids", "authors", "kinds")) or any(len(v) > 1 for v in f.get("tags", {}).values())]
    # (the wide filters first: their unions are over the tag values)
    multi.sort(key=lambda f: 0 if len(f.get("kinds", [])) >= 6 else 1)
    unions = []
    extra = []
    for f in multi[: (150 if tier == "quick" else 2000)]:
        fld = next((k for k in ("ids", "authors", "kinds") if len(f.get(k, [])) > 1), None)
        if len(f.get("kinds", [])) >= 6 and any(len(v) > 1 for v in f.get("tags", {}).values()):
            fld = None          # a wide filter: the union is over the values of its multi-value tag condition
        if fld:
            parts = [dict(f, **{fld: [v]}) for v in f[fld]]
        else:
            fld = next(n for n, v in f.get("tags", {}).items() if len(v) > 1)
            parts = [dict(f, tags=dict(f["tags"], **{fld: [v]})) for v in f["tags"][fld]]
        unions.append((f, fld, parts))
        extra += parts
    # multi-value ids / authors lists spelled with upper-case hex digits (the same 32-byte values): the answer must still be
    # the union of the answers to the single values, and must not depend on unrelated events
    spelled = []
    for fld, lst in (("authors", ["C", "D"]), ("authors", ["D", "C"]), ("authors", ["A", "C", "D"]), ("authors", ["A", "B"]), ("authors", ["B", "C"]),
                     ("ids", ["q1", "q7"]), ("ids", ["q7", "q8"]), ("ids", ["s1", "s2", "q2"]), ("ids", ["q3", "q6", "q9"])):
        for more in ({}, {"kinds": [1]}):
            f = dict({fld: list(lst)}, **more)
            parts = [dict(f, **{fld: [v]}) for v in lst]
            extra += parts
            for mask in range(1, 2 ** len(lst)):
                conc = uni.conc_filter(f)
                conc[fld] = [v.upper() if mask >> k & 1 else v for k, v in enumerate(conc[fld])]
                spelled.append((f, fld, parts, conc))
    allf = {}
    for f in filters + [g for _, g in pairs] + [f for f, _ in pairs] + extra:
        allf.setdefault(repr(sorted(f.items(), key=str)), f)
    keys = list(allf)
    reqs = [[allf[k]] for k in keys] + [("raw", [conc], [f]) for f, fld, parts, conc in spelled]
    index = {k: n for n, k in enumerate(keys)}
    splits = []
    for _ in range({"quick": 6, "thorough": 30}[tier]):
        order = syms[:]
        rnd.shuffle(order)
        cut = rnd.randint(len(order) // 3, 2 * len(order) // 3)
        sa = order[:cut]
        sb = sa + order[cut:]
        splits.append((sa, sb))
    payloads = [(b, sa, sb, reqs) for b in BACKENDS for sa, sb in splits]
    results = pool.map_in_workers("harness.checks.c11", "_worker", payloads)
    traces = []
    meta = []
    fk = lambda f: repr(sorted(f.items(), key=str))
    for (backend, sa, sb, _), ((store_a, ans_a), (store_b, ans_b)) in zip(payloads, results):
        lines = []
        for k in keys:
            f = allf[k]
            lines.append({"a": "Unaffected", "f": abs_filter_tla(f), "sa": set(store_a), "sb": set(store_b), "ra": ans_a[index[k]], "rb": ans_b[index[k]], "_f": f})
        for f, g in pairs:
            lines.append({"a": "Mono", "f": abs_filter_tla(f), "g": abs_filter_tla(g), "rf": ans_b[index[fk(f)]], "rg": ans_b[index[fk(g)]], "_f": f, "_g": g})
        for f, fld, parts in unions:
            lines.append({"a": "Union", "f": abs_filter_tla(f), "fld": fld, "rf": ans_b[index[fk(f)]],
                          "parts": [{"g": abs_filter_tla(p), "r": ans_b[index[fk(p)]]} for p in parts], "_f": f})
        for n, (f, fld, parts, conc) in enumerate(spelled):
            pos = len(keys) + n
            lines.append({"a": "Unaffected", "f": abs_filter_tla(f), "sa": set(store_a), "sb": set(store_b), "ra": ans_a[pos], "rb": ans_b[pos],
                          "_f": f, "_sent_as": conc})
            lines.append({"a": "Union", "f": abs_filter_tla(f), "fld": fld, "rf": ans_b[pos],
                          "parts": [{"g": abs_filter_tla(p_), "r": ans_b[index[fk(p_)]]} for p_ in parts], "_f": f, "_sent_as": conc})
        for b in range(0, len(lines), 400):
            traces.append(lines[b:b + 400])
            meta.append((backend, sorted(store_a), sorted(store_b)))
    defs = {"TD_Universe": uni.tla_universe(), "TD_OneCharNames": set(uni.one_char_names())}
    raw = {}
    verdicts, vstats = tracedata.validate("Pairs_Trace", defs, traces, batch=6, raw=raw)
    out.add_model(vstats)
    judged = 0
    samples = []
    for k, tr in enumerate(traces):
        out.cov["traces_validated_against_impl"] += 1
        out.cov["evaluations"] += len(tr)
        judged += raw[k].get("judged", 0)
        if len(samples) < 3 and k % 17 == 3:
            ln = tr[0]
            samples.append({"backend": meta[k][0], "kind": ln["a"], "filter": ln["_f"], "store_small": meta[k][1], "store_large": meta[k][2],
                            "answers": [ln.get("ra"), ln.get("rb")]})
        for b in verdicts[k]:
            ln = tr[b[1] - 1]
            det = {x: (sorted(y) if isinstance(y, set) else y) for x, y in ln.items() if x.startswith("_") or x in ("ra", "rb", "rf", "rg", "fld")}
            what = "C11 on %s: %s: %s; stores %s / %s" % (meta[k][0], b[0], det, meta[k][1], meta[k][2])
            out.violation(what, {"formula": b[0], "backend": meta[k][0], "line": det}, None)
    out.cov["distinct_nontrivial"] = judged
    out.cov["rule"] = ("seeded splits S < S+N of a 24-event universe (the query universe plus neighbours: previous / next kinds, tag "
                       "values extending or sorting next to the requested ones, equal timestamps with ids starting 00 / ff / fe, "
                       "events just outside the window bounds), %d filters answered over both stores on both backends; lines: one "
                       "Unaffected per filter, %d narrowing pairs, %d unions of single values; TLC evaluates each line's precondition "
                       "and conclusion; evaluations = lines, distinct_nontrivial = lines whose precondition held (counted by TLC)"
                       % (len(keys), len(pairs), len(unions)))
    out.cov["samples"] = samples or [{"note": "none"}]
    return out
