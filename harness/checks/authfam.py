"""
C15 (NIP-42) and C14 (role-based authorisation, output validator, role read-back).
The payload classes of Auth.tla are concretised into real signed kind-22242 events (injected clock), sent to the real
Authenticator.authenticate and, in sequences with probes, through web.start_client on both backends with authentication
enabled; every decision is judged by TLC against Auth.tla (Auth_Trace.tla).
"""
import asyncio
import itertools
import json
import random

from .. import common as C
from .. import pool, tlc, tracedata
from ..report import Outcome

NOW = C.T0 + 5000
URLS = ["ws://localhost:6969", "wss://relay.example/path"]
RELAY_CLASS = {"exact": URLS[0], "exact2": URLS[1], "substring": "ws", "superstring": URLS[0] + "/evil", "foreign": "ws://evil.example",
               "prefix": "ws://localhost", "empty": ""}
KEYS = ["A", "B", "C"]
ROLES = {"A": "w", "B": "r", "C": ""}     # C: every role explicitly revoked
ACTIONS = {"save": "w", "query": "rw"}
ACTIONS_ANON = {"save": "aw", "query": "ar"}      # a relay open to anonymous clients: only a key whose roles were revoked is kept out
CONNS = ["c1", "c2"]


def relay_abs(cls):
    return "exact" if cls in ("exact", "exact2") else ("substring" if cls in ("substring", "prefix", "empty") else cls)


def make_payload(p, challenges):
    """abstract payload record -> real signed AUTH event (dict)"""
    tags = []
    for r in p["relays_c"]:
        tags.append(["relay", RELAY_CLASS[r]])
    for ch in p["chals"]:
        tags.append(["challenge", challenges.get(ch, "0123456789abcdef0123456789abcdef" if ch == "none" else ch)])
    if p.get("extra"):
        tags.append(["client", "verif"])
    if p.get("deleg"):
        # a genuine NIP-26 delegation by another key to the signer: it says who may post for whom, not who is answering
        tags.append(C.delegation_tag(p["deleg"], p["signer"]))
    # (age "nan": a created_at that is not a number at all - NaN, which the relay's JSON parser reads - is as far from now as can be)
    ev = C.mk_event(p["signer"], kind=p["kind"], created_at=(float("nan") if p["age"] == "nan" else NOW - p["age"]), tags=tags, content="")
    if p["sig"] == "bad":
        ev["sig"] = ev["sig"][:-2] + ("00" if ev["sig"][-2:] != "00" else "01")
    elif p["sig"] == "lifted":
        # id and signature of another event of the same key (a note it once published): a genuine signature, but of something
        # else - nothing binds it to this challenge, relay, kind or time
        other = C.mk_event(p["signer"], kind=1, created_at=NOW - 5000, tags=[["t", "note"]], content="an old note")
        ev["id"], ev["sig"] = other["id"], other["sig"]
    elif p["sig"] == "noid":
        # correctly signed, sent without the id field (the relay may compute it)
        ev.pop("id", None)
    return ev


FAR = 1000000000      # the age the contract sees for a timestamp that is not a number


def abstract(p):
    # (to the contract a lifted signature is a bad one: it does not sign this answer; an answer without id field is as good as its signature)
    return {"signer": p["signer"], "sig": {"lifted": "bad", "noid": "ok"}.get(p["sig"], p["sig"]), "kind": p["kind"], "age": FAR if p["age"] == "nan" else p["age"],
            "relays": [relay_abs(r) for r in p["relays_c"]], "chals": list(p["chals"])}


VALID = {"signer": "A", "sig": "ok", "kind": 22242, "age": 0, "relays_c": ["exact"], "chals": ["c1"], "extra": False, "deleg": None}


def payload_grammar(rnd, tier):
    """single deviations from a valid payload, all pairs of deviations, and a seeded sample of the full product"""
    dims = {
        "signer": ["A", "B"],
        "sig": ["ok", "bad", "lifted"],
        "kind": [22242, 22243, 1],
        "age": [-601, -600, -599, -1, 0, 1, 599, 600, 601, 100000, "nan"],
        "relays_c": [["exact"], ["exact2"], ["substring"], ["prefix"], ["empty"], ["superstring"], ["foreign"], [], ["exact", "foreign"],
                     ["foreign", "exact"], ["exact", "exact2"]],
        "chals": [["c1"], ["c2"], ["none"], [], ["c1", "none"], ["none", "c1"], ["c2", "c1"], ["c1", "c1"]],
        "extra": [False, True],
        "deleg": [None, "A", "B", "C"],
    }
    out = [dict(VALID)]
    names = list(dims)
    for n in names:
        for v in dims[n]:
            q = dict(VALID)
            q[n] = v
            out.append(q)
    for a, b in itertools.combinations(names, 2):
        for va in dims[a]:
            for vb in dims[b]:
                q = dict(VALID)
                q[a], q[b] = va, vb
                out.append(q)
    for _ in range(300 if tier == "quick" else 5000):
        out.append({n: rnd.choice(dims[n]) for n in names})
    seen = {}
    for q in out:
        seen.setdefault(json.dumps(q, sort_keys=True), q)
    return list(seen.values())


class RolesStub:
    async def get_auth_roles(self, pubkey):
        for k in KEYS:
            if C.pubkey(k) == pubkey:
                return set(ROLES[k])
        return {"a"}


def _direct_worker(payload):
    """Authenticator.authenticate called directly, one fresh authenticator per chunk"""
    relay_urls, items = payload
    import nostr_relay.auth as auth

    auth.time = lambda: float(NOW)
    opts = {"enabled": True, "actions": ACTIONS}
    if relay_urls is not None:
        opts["relay_urls"] = relay_urls
    authn = auth.Authenticator(RolesStub(), opts)
    authn.log = _Quiet()
    out = []

    async def main():
        challenges = {c: authn.get_challenge("10.0.0.%d" % (i + 1)) for i, c in enumerate(CONNS)}
        for conn, p in items:
            ev = make_payload(p, challenges)
            try:
                tok = await authn.authenticate(ev, challenge=challenges[conn])
                ok = isinstance(tok, dict)
                who = [k for k in KEYS if ok and tok.get("pubkey") == C.pubkey(k)]
                who = who[0] if who else "?"
                note = "" if who == p["signer"] else "token for another identity: %s" % (tok.get("pubkey") if ok else tok,)
            except Exception as e:
                ok = False
                who = ""
                note = "%s: %s" % (type(e).__name__, e)
            # who: the identity the returned token names (judged against the signer by Auth.tla)
            ln = {"a": "Auth", "c": conn, "p": abstract(p), "ok": ok, "_note": note, "_conc": p}
            if ok:
                ln["who"] = who
                ln["roles"] = set(tok.get("roles") or ())
            out.append([ln])
        return out

    return asyncio.run(main())


def _cando_worker(payload):
    import nostr_relay.auth as auth

    alphabet = "arws"
    subsets = ["".join(c for i, c in enumerate(alphabet) if m >> i & 1) for m in range(16)]
    lines = []

    async def main():
        for cfg in subsets:
            authn = auth.Authenticator(RolesStub(), {"enabled": True, "actions": {"save": cfg, "query": cfg}})
            authn.log = _Quiet()
            for roles in [None] + subsets:
                for action in ("save", "query"):
                    tok = None if roles is None else {"pubkey": "x", "roles": set(roles)}
                    allowed = bool(await authn.can_do(tok, action))
                    lines.append({"a": "CanDo", "roles": [] if roles is None else [set(roles)], "action": action, "cfg": set(cfg),
                                  "allowed": allowed})
        # partial configurations: an action the configuration does not name keeps its default (the anonymous role), it does
        # not become free for all
        for cfg in ("w", "r", "rw", ""):
            for named in ("save", "query", None):
                authn = auth.Authenticator(RolesStub(), {"enabled": True, "actions": ({named: cfg} if named else {})})
                authn.log = _Quiet()
                for roles in [None] + subsets:
                    for action in ("save", "query"):
                        tok = None if roles is None else {"pubkey": "x", "roles": set(roles)}
                        allowed = bool(await authn.can_do(tok, action))
                        lines.append({"a": "CanDo", "roles": [] if roles is None else [set(roles)], "action": action,
                                      "cfg": set(cfg) if action == named else {"a"}, "allowed": allowed})
        return [lines]

    return asyncio.run(main())


def _ws_worker(payload):
    """sequences of AUTH attempts with save/query probes through web.start_client on a real storage"""
    backend, scenarios, seed = payload
    from .. import relaydrv, storedrv
    from ..universe import Universe
    from .storefam import E

    import nostr_relay.auth as auth

    auth.time = lambda: float(NOW)
    out = []

    async def one(scn):
        descs = [E("pa%d" % i, "A", 1, 100 + i, [["t", "a"]]) for i in range(30)] + [E("pb%d" % i, "B", 1, 200 + i, [["t", "a"]]) for i in range(30)] \
            + [E("pc%d" % i, "C", 1, 400 + i, [["t", "a"]]) for i in range(30)] \
            + [E("pl", "B", 10002, 300, [["r", "x"]])]
        uni = Universe(descs)
        with C.Scratch() as d:
            st = await storedrv.open_storage(backend, d, sync_writer=False)
            for k in KEYS:
                await st.set_auth_roles(C.pubkey(k), ROLES[k])
            if backend == "lmdb":
                await C.lmdb_drain(st)
            sid_map = {"s%d" % i: "sub%d" % i for i in range(1, 20)}
            sched = [("open", 0), ("open", 1), ("idle",), ("msg", 0, {"m": "REQ", "sid": "s19", "fs": []}), ("msg", 1, {"m": "REQ", "sid": "s19", "fs": []}), ("idle",)]
            probes = iter(range(100))
            lines_meta = []

            def auth_step(conn, p):
                def fn(rec):
                    chals = {}
                    for ln in rec.log:
                        if ln["a"] == "Send" and ln["f"]["t"] == "AUTH":
                            chals["c%d" % (ln["c"] + 1)] = ln["f"]["challenge"]
                    ev = make_payload(p, chals)
                    return [(int(conn[1]) - 1, json.dumps(["AUTH", ev]), {"m": "AUTH", "p": p})]
                return ("call", fn)

            evn = {k: 0 for k in KEYS}
            sidn = [0]
            sids_used = []
            for step in scn:
                if step[0] == "auth":
                    sched += [auth_step(step[1], step[2]), ("idle",)]
                elif step[0] == "setroles":
                    async def assign(rec, key=step[1], rs=step[2]):
                        await st.set_auth_roles(C.pubkey(key), rs)
                        if backend == "lmdb":
                            await C.lmdb_drain(st)
                    sched += [("do", assign), ("idle",)]
                else:
                    conn = int(step[1][1]) - 1
                    if step[2] == "save":
                        who = step[3]
                        sym = "p%s%d" % (who.lower(), evn[who])
                        evn[who] += 1
                        sched += [("msg", conn, {"m": "EVENT", "e": sym}), ("idle",)]
                    else:
                        sidn[0] += 1
                        sched += [("msg", conn, {"m": "REQ", "sid": "s%d" % sidn[0], "fs": [{"kinds": [1]}]}), ("idle",)]
                        sids_used.append("s%d" % sidn[0])
            try:
                log, info, errs = await relaydrv.run_connections(st, uni, 2, sched, sid_map)
            finally:
                await storedrv.close_storage(st)
        # interpret the log: one segment per Idle point (every scenario step is followed by exactly one), holding the pushes seen
        # and what the handled message was answered with.  A step whose connection is gone has an empty segment.
        segs = []
        pushes = []
        cur = {}
        closed = {}
        for ln in log:
            if ln["a"] == "Send" and ln["f"]["t"] == "EVENT":
                pushes.append(("push", "c%d" % (ln["c"] + 1), ln["f"]["sid"]))
            if ln["a"] == "WsClose":
                closed.setdefault("c%d" % (ln["c"] + 1), (len(segs) - 2, ln["code"]))      # step index at which it happened
            if ln["a"] == "Recv":
                cur[ln["c"]] = {"m": ln["m"], "frames": []}
            elif ln["a"] == "Send" and ln["c"] in cur:
                cur[ln["c"]]["frames"].append(ln["f"])
            elif ln["a"] == "Idle":
                done = {}
                for c, x in list(cur.items()):
                    conn = "c%d" % (c + 1)
                    notice = [f for f in x["frames"] if f["t"] == "NOTICE"]
                    if x["m"] == "RAW" or x["m"] == "AUTH":
                        done[conn] = ("auth", conn, not notice, notice[0]["text"] if notice else "")
                    elif x["m"] == "EVENT":
                        okf = [f for f in x["frames"] if f["t"] == "OK"]
                        done[conn] = ("probe", conn, "save", bool(okf and okf[0]["ok"]), okf[0].get("reason", "") if okf else "no OK frame")
                    elif x["m"] == "REQ":
                        eose = [f for f in x["frames"] if f["t"] == "EOSE"]
                        done[conn] = ("probe", conn, "query", bool(eose) and not notice, notice[0]["text"] if notice else "")
                segs.append((pushes, done))
                pushes = []
                cur = {}
        return segs[2:], errs, sids_used, closed        # the first two idle points belong to the preamble (open, filterless REQs)

    async def main():
        for scn in scenarios:
            segs, errs, sids_used, closed = await one(scn)
            lines = []
            qn = 0
            for k, step in enumerate(scn):
                pushes, done = segs[k] if k < len(segs) else ([], {})
                o = done.get(step[1])
                gone = step[1] in closed and closed[step[1]][0] <= k
                if gone and closed[step[1]][0] == k:
                    # the relay handled this frame by closing the connection (whatever it did to the session first is unobservable)
                    lines.append({"a": "Closed", "c": step[1], "_code": closed[step[1]][1]})
                if step[0] == "setroles":
                    for pu in pushes:
                        lines.append({"a": "Push", "c": pu[1], "sid": pu[2]})
                    lines.append({"a": "SetRoles", "key": step[1], "roles": set(step[2])})
                    continue
                o = done.get(step[1])
                if step[0] == "auth":
                    for pu in pushes:
                        lines.append({"a": "Push", "c": pu[1], "sid": pu[2]})
                    # (a connection the relay closed while handling the AUTH frame has no session any more)
                    lines.append({"a": "Auth", "c": step[1], "p": abstract(step[2]),
                                  "ok": bool(o[2]) if o and o[0] == "auth" and not gone else False,
                                  "_note": o[-1] if o else "no answer (connection closed: %s)" % (closed.get(step[1]),), "_conc": step[2]})
                else:
                    ln = {"a": "Probe", "c": step[1], "action": step[2], "allowed": bool(o[3]) if o and o[0] == "probe" else False,
                          "_note": o[-1] if o else "no answer (connection closed: %s)" % (closed.get(step[1]),)}
                    if step[2] == "query":
                        ln["sid"] = sids_used[qn] if qn < len(sids_used) else "s?"
                        qn += 1
                        # stored events of the answer arrive before EOSE, within the probe's own step
                        lines.append(ln)
                        for pu in pushes:
                            lines.append({"a": "Push", "c": pu[1], "sid": pu[2]})
                    else:
                        lines.append(ln)
                        for pu in pushes:
                            lines.append({"a": "Push", "c": pu[1], "sid": pu[2]})
            out.append(lines)
        return out

    return asyncio.run(main())


def ws_scenarios(rnd, n):
    bad = [dict(VALID, sig="bad"), dict(VALID, sig="lifted"), dict(VALID, chals=["c2"]), dict(VALID, relays_c=["foreign"]), dict(VALID, age=601), dict(VALID, kind=1),
           dict(VALID, chals=[]), dict(VALID, relays_c=[])]
    out = []
    for _ in range(n):
        scn = []
        for _ in range(rnd.choice([2, 3, 4])):
            conn = rnd.choice(CONNS)
            r = rnd.random()
            if r < 0.35:
                p = dict(VALID, signer=rnd.choice(KEYS), chals=[conn])
                if rnd.random() < 0.5:
                    p["deleg"] = rnd.choice([k for k in KEYS if k != p["signer"]])
            elif r < 0.55:
                # an otherwise perfect answer to the *other* connection's challenge
                p = dict(VALID, signer=rnd.choice(KEYS), chals=["c2" if conn == "c1" else "c1"])
            else:
                p = dict(rnd.choice(bad))
                if p["chals"] == ["c1"]:
                    p["chals"] = [conn]
                p["signer"] = rnd.choice(KEYS)
            scn.append(("auth", conn, p))
            for c in CONNS:
                scn.append(("probe", c, "save", rnd.choice(KEYS)))
                scn.append(("probe", c, "query"))
            if rnd.random() < 0.5:
                # the operator changes a key's roles while sessions exist: they keep theirs, the key's next AUTH gets the new ones
                scn.append(("setroles", rnd.choice(KEYS), rnd.choice(["", "r", "w", "rw"])))
                for c in CONNS:
                    scn.append(("probe", c, "save", rnd.choice(KEYS)))
        # a valid AUTH of a key, a change of its roles, the same key again on the same and on the other connection
        if rnd.random() < 0.6:
            k = rnd.choice(KEYS)
            scn.append(("auth", "c1", dict(VALID, signer=k, chals=["c1"])))
            scn.append(("setroles", k, rnd.choice([x for x in ["", "r", "w"] if x != ROLES[k]])))
            for conn in rnd.sample(CONNS, 2):
                scn.append(("auth", conn, dict(VALID, signer=k, chals=[conn])))
                for c in CONNS:
                    scn.append(("probe", c, "save", rnd.choice(KEYS)))
                    scn.append(("probe", c, "query"))
        out.append(scn)
    return out


class _Quiet:
    def __getattr__(self, name):
        return lambda *a, **k: None


def defs(actions=None):
    return {"TD_Conns": set(CONNS), "TD_Keys": set(KEYS), "TD_RolesOf": {k: set(v) for k, v in ROLES.items()}, "TD_DefaultRoles": {"a"},
            "TD_ActionRoles": {k: set(v) for k, v in (actions or ACTIONS).items()}, "TD_Whitelist": {"A"}}


def run(prop, tier, seed, **kw):
    out = Outcome(prop, tier, seed, "model_checking")
    rnd = random.Random(seed)
    design = tlc.DesignCheck([("MC_Auth", "MC_Auth.cfg", "Auth")], workers=4, timeout=600)
    own = prop + "_"
    traces = []
    meta = []
    auth_cfg = {"enabled": True, "relay_urls": URLS, "actions": ACTIONS}
    if prop == "C15":
        grammar = payload_grammar(rnd, tier)
        items = [(rnd.choice(CONNS) if k % 3 else "c1", p) for k, p in enumerate(grammar)]
        # the payload's own-challenge marker is relative to the connection it is sent on
        items = [(c, p if c == "c1" else dict(p, chals=[{"c1": "c2", "c2": "c1"}.get(x, x) for x in p["chals"]])) for c, p in items]
        for urls, label in ((URLS, "list"), (None, "default")):
            cfg_items = items if urls is not None else [(c, dict(p, relays_c=[r for r in p["relays_c"] if r != "exact2"])) for c, p in items]
            payloads = [(urls, cfg_items[b:b + 200]) for b in range(0, len(cfg_items), 200)]
            for res in pool.map_in_workers("harness.checks.authfam", "_direct_worker", payloads):
                for tr in res:
                    traces.append(tr)
                    meta.append(("authenticate()", label))
        chal = pool.map_in_workers("harness.checks.authfam", "_challenge_worker", [5000 if tier == "quick" else 50000])[0]
        out.notes["challenges"] = chal
        if not chal["ok"]:
            out.violation("C15 challenges: %s" % chal, {"formula": "C15_ChallengesDistinct", "line": {}}, None)
    scen = ws_scenarios(rnd, {"quick": 24, "thorough": 300}[tier])
    payloads = [(b, scen[k:k + 4], seed) for b in ("sql", "lmdb") for k in range(0, len(scen), 4)]
    cfg = {"authentication": auth_cfg, "service_privatekey": C.SECRETS["S"]}
    for p, res in zip(payloads, pool.map_in_workers("harness.checks.authfam", "_ws_worker", payloads, config=cfg)):
        for tr in res:
            traces.append(tr)
            meta.append(("start_client", p[0]))
    anon_from = len(traces)
    if prop == "C14":
        # the same scenarios on a relay whose actions are open to the anonymous role
        cfg_anon = {"authentication": dict(auth_cfg, actions=ACTIONS_ANON), "service_privatekey": C.SECRETS["S"]}
        for p, res in zip(payloads, pool.map_in_workers("harness.checks.authfam", "_ws_worker", payloads, config=cfg_anon)):
            for tr in res:
                traces.append(tr)
                meta.append(("start_client", p[0] + "/anonymous-allowed"))
        anon_to = len(traces)
    if prop == "C14":
        for res in pool.map_in_workers("harness.checks.authfam", "_cando_worker", [0]):
            for tr in res:
                traces.append(tr)
                meta.append(("can_do()", "matrix"))
        rb = pool.map_in_workers("harness.checks.authfam", "_roles_worker", [("sql", seed), ("lmdb", seed)], config=cfg)
        for (b, _), res in zip([("sql", 0), ("lmdb", 0)], rb):
            for tr in res:
                traces.append(tr)
                meta.append(("roles", b))
        ov = pool.map_in_workers("harness.checks.authfam", "_output_worker", [("sql", seed), ("lmdb", seed)],
                                 config=dict(cfg, output_validator="nostr_relay.recipe.homeserver.whitelist_output_validator",
                                             pubkey_whitelist=[C.pubkey("A")]))
        for (b, _), res in zip([("sql", 0), ("lmdb", 0)], ov):
            for tr in res:
                traces.append(tr)
                meta.append(("output_validator", b))
    if prop == "C14":
        anon = traces[anon_from:anon_to]
        rest = traces[:anon_from] + traces[anon_to:]
        meta = meta[:anon_from] + meta[anon_to:] + meta[anon_from:anon_to]
        traces = rest + anon
        v1, vstats = tracedata.validate("Auth_Trace", defs(), rest, batch=400)
        v2, vstats2 = tracedata.validate("Auth_Trace", defs(ACTIONS_ANON), anon, batch=400)
        out.add_model(vstats2)
        verdicts = dict(v1)
        verdicts.update({len(rest) + k: v for k, v in v2.items()})
    else:
        verdicts, vstats = tracedata.validate("Auth_Trace", defs(), traces, batch=400)
    out.add_model(vstats)
    distinct = set()
    samples = []
    for k, tr in enumerate(traces):
        out.cov["traces_validated_against_impl"] += 1
        out.cov["evaluations"] += len(tr)
        for ln in tr:
            if ln["a"] == "Auth" and (ln["ok"] or "_conc" in ln):
                distinct.add(json.dumps(ln.get("_conc", {}), sort_keys=True, default=str) + meta[k][1])
            elif ln["a"] != "Auth":
                distinct.add(json.dumps({x: (sorted(y) if isinstance(y, set) else y) for x, y in ln.items() if not x.startswith("_")},
                                        sort_keys=True, default=str) + meta[k][1])
        if len(samples) < 4 and k % 397 == 5:
            samples.append({"path": meta[k], "trace": [{x: (sorted(y) if isinstance(y, set) else y) for x, y in ln.items()} for ln in tr[:6]]})
        for b in verdicts[k]:
            if not (b[0].startswith(own) or (b[0] == "Conform" and prop == "C15")):
                continue
            ln = tr[b[1] - 1]
            what = "%s via %s/%s: %s at line %d %s" % (prop, meta[k][0], meta[k][1], b[0], b[1],
                                                     {x: y for x, y in ln.items() if x != "_conc"})
            out.violation(what, {"formula": b[0], "line": ln, "path": meta[k]}, lambda p, tr=tr, b=b, m=meta[k]: _dump(p, prop, m, tr, b))
            break
    design.join(out)
    out.cov["distinct_nontrivial"] = len(distinct)
    out.cov["rule"] = ("C15: every single deviation from a valid AUTH payload, all pairs of deviations and a seeded sample of the product "
                       "(signer, signature, kind, age at +-599/600/601 s, relay-tag sequences incl. substring / prefix / superstring / "
                       "duplicates, challenge-tag sequences incl. the other connection's and duplicates), under relay_urls as a list and "
                       "as the default, through Authenticator.authenticate; seeded sequences of attempts on two connections with "
                       "save/query probes through web.start_client on both backends. C14 adds the full can_do matrix (16 role "
                       "configurations x 17 token role sets x 2 actions), role assignment sequences and the whitelist output validator "
                       "on stored and live delivery. A case is a distinct judged line; evaluations = lines judged")
    out.cov["samples"] = samples or [{"note": "none"}]
    return out


def _challenge_worker(n):
    import nostr_relay.auth as auth

    auth.time = lambda: float(NOW)
    authn = auth.Authenticator(RolesStub(), {"enabled": True})
    authn.log = _Quiet()
    chs = [authn.get_challenge("10.0.0.1") for _ in range(n // 2)] + [authn.get_challenge("10.0.0.%d" % (k % 250)) for k in range(n // 2)]
    ok_shape = all(isinstance(c, str) and len(c) == 32 and all(x in "0123456789abcdef" for x in c) for c in chs)
    # TLC evaluates Auth.tla C15_ChallengesDistinct on the issued challenges
    text = ("---- MODULE ChalCheck ----\nEXTENDS Integers, Sequences, FiniteSets, TLC, Json\nCONSTANTS Conns, Keys, RolesOf, DefaultRoles, ActionRoles\n"
            "VARIABLES token, roles, last\nINSTANCE Auth\nChs == %s\nASSUME PrintT(\"@@\" \\o ToJson([ok |-> C15_ChallengesDistinct(Chs), n |-> Len(Chs)]))\n"
            "SpecC == Init /\\ [][UNCHANGED vars]_vars\n====\n" % tlc.tla(chs))
    with tlc.Workdir(prefix="chal-") as wd:
        wd.write("ChalCheck.tla", text)
        cfg = wd.write("ChalCheck.cfg", "SPECIFICATION SpecC\nCONSTANT Conns = {}\nCONSTANT Keys = {}\nCONSTANT RolesOf = {}\n"
                                         "CONSTANT DefaultRoles = {}\nCONSTANT ActionRoles = {}\n")
        res = tlc.run_tlc(wd, "ChalCheck", cfg, workers=1, timeout=300)
    v = list(tlc.printed_json(res["out"]))
    if not v:
        raise tlc.TlcError("challenge check failed to run: " + tlc.tlc_failed_how(res["out"]))
    return {"issued": len(chs), "distinct_by_tlc": bool(v[0]["ok"]), "shape_32_hex": ok_shape, "ok": bool(v[0]["ok"]) and ok_shape}


def _roles_worker(payload):
    backend, seed = payload
    from .. import storedrv

    rnd = random.Random(seed)

    async def main():
        out = []
        for _ in range(6):
            with C.Scratch() as d:
                st = await storedrv.open_storage(backend, d, sync_writer=False)
                lines = []
                try:
                    for _ in range(8):
                        k = rnd.choice(["A", "B", "C"])
                        if rnd.random() < 0.55:
                            roles = "".join(sorted(rnd.sample("arws", rnd.choice([1, 1, 2, 3]))))
                            await st.set_auth_roles(C.pubkey(k), roles)
                            if backend == "lmdb":
                                await C.lmdb_drain(st)
                            lines.append({"a": "SetRoles", "key": k, "roles": set(roles)})
                        got = await st.get_auth_roles(C.pubkey(k))
                        lines.append({"a": "GetRoles", "key": k, "roles": set(got)})
                finally:
                    await storedrv.close_storage(st)
                out.append(lines)
        return out

    return asyncio.run(main())


def _output_worker(payload):
    backend, seed = payload
    from .. import relaydrv, storedrv
    from ..universe import Universe
    from .storefam import E
    import nostr_relay.auth as auth

    auth.time = lambda: float(NOW)

    async def one(reader_auth):
        descs = [E("a1", "A", 1, 10), E("b1", "B", 1, 20), E("bl", "B", 10002, 30), E("a2", "A", 1, 40), E("b2", "B", 1, 50), E("bl2", "B", 10002, 60)]
        uni = Universe(descs)
        with C.Scratch() as d:
            st = await storedrv.open_storage(backend, d, sync_writer=False)
            for k in KEYS:
                await st.set_auth_roles(C.pubkey(k), "rw")
            if backend == "lmdb":
                await C.lmdb_drain(st)

            def auth_step(rec):
                chals = {"c%d" % (ln["c"] + 1): ln["f"]["challenge"] for ln in rec.log if ln["a"] == "Send" and ln["f"]["t"] == "AUTH"}
                out = [(1, json.dumps(["AUTH", make_payload(dict(VALID, signer="A", chals=["c2"]), chals)]), {"m": "AUTH"})]
                if reader_auth:
                    out.append((0, json.dumps(["AUTH", make_payload(dict(VALID, signer=reader_auth, chals=["c1"]), chals)]), {"m": "AUTH"}))
                return out

            sched = [("open", 0), ("open", 1), ("idle",), ("call", auth_step), ("idle",)]
            for s in ("a1", "b1", "bl"):
                sched += [("msg", 1, {"m": "EVENT", "e": s}), ("idle",)]
            # the publisher (authenticated, whitelisted) subscribes too, and first: the validator's answer depends on who is
            # being served, so every delivery is judged for the connection it goes to
            sched += [("msg", 1, {"m": "REQ", "sid": "s2", "fs": [{"kinds": [1, 10002]}]}), ("idle",)]
            sched += [("msg", 0, {"m": "REQ", "sid": "s1", "fs": [{"kinds": [1, 10002]}]}), ("idle",)]
            for s in ("a2", "b2", "bl2"):
                sched += [("msg", 1, {"m": "EVENT", "e": s}), ("idle",)]
            try:
                log, info, errs = await relaydrv.run_connections(st, uni, 2, sched, {"s1": "sub1", "s2": "sub2"})
            finally:
                await storedrv.close_storage(st)
        lines = [{"a": "Auth", "c": "c2", "p": abstract(dict(VALID, signer="A", chals=["c2"])), "ok": True}]
        if reader_auth:
            lines.append({"a": "Auth", "c": "c1", "p": abstract(dict(VALID, signer=reader_auth)), "ok": True})
        eose = {0: False, 1: False}
        for ln in log:
            if ln["a"] == "Send" and ln["c"] in (0, 1):
                f = ln["f"]
                if f["t"] == "EOSE":
                    eose[ln["c"]] = True
                elif f["t"] == "EVENT":
                    ab = uni.abs[f["e"]]
                    lines.append({"a": "Deliver", "c": "c%d" % (ln["c"] + 1), "pk": ab["pk"], "kind": ab["kind"],
                                  "how": "live" if eose[ln["c"]] else "stored", "_e": f["e"]})
        return lines

    async def main():
        return [await one(None), await one("B"), await one("A")]

    return asyncio.run(main())


def _dump(path, prop, meta, tr, b):
    import os

    os.makedirs(os.path.dirname(path), exist_ok=True)
    with open(path, "w") as fp:
        json.dump({"meta": {"property": prop, "path": meta}, "verdict": b,
                   "trace": [{x: (sorted(y) if isinstance(y, set) else y) for x, y in ln.items()} for ln in tr]}, fp, indent=1, default=str)
