"""
C16: admission policies.  (1) Validators.tla gives every validator its documented bound and the pipeline its
first-failing semantics; events at, just inside and just outside every bound are built (real signatures, ground
proof-of-work, injected clock) and submitted through add_event of both backends configured with validator pipelines;
TLC judges every decision, its reason and that a refusal leaves no trace (Validators_Trace.tla).
(2) DynLists.tla: the dynamic allow/deny lists, see dynlists.py.
"""
import asyncio
import itertools
import random

from .. import common as C
from .. import pool, tlc, tracedata
from ..report import Outcome

NOW = C.T0 + 100000
CFG = {"max_size": 20, "oldest": 1000, "valid_kinds": [1, 7, 5, 31494], "whitelist": ["A", "B", "S"], "blacklist": ["C"], "require_pow": 4,
       "hell_limit": 2, "service_pk": "S"}
ALL = ["is_signed", "is_not_too_large", "is_recent", "is_certain_kind", "is_author_whitelisted", "is_author_blacklisted", "is_pow",
       "is_not_hellthread", "is_service_event"]
NOMINAL = {"len": 5, "age": 10, "kind": 1, "pk": "A", "pow": 4, "ptags": 0, "signed": True}
REASONS = [("280 characters", {"is_not_too_large"}), ("too old", {"is_recent"}), ("in the future", {"is_recent"}),
           ("kind=", {"is_certain_kind"}), ("PoW required", {"is_pow"}), ("too many 'p' tags", {"is_not_hellthread"}),
           ("must be", {"is_service_event"}), ("not allowed", {"is_author_whitelisted", "is_author_blacklisted"}),
           ("Bad signature", {"is_signed"}), ("Bad id", {"is_signed"}), ("Signature must be", {"is_signed"}), ("signature", {"is_signed"})]


def attribute_vectors():
    dev = {
        "len": [19, 20, 21, 0],
        "age": [999, 1000, 1001, -3599, -3600, -3601, 0],
        "kind": [7, 2, 5, 31494],
        "pk": ["B", "C", "D", "S"],
        "pow": [3, 5],
        "ptags": [1, 2, 3],
        "signed": [False],
    }
    out = [dict(NOMINAL)]
    for k, vs in dev.items():
        for v in vs:
            out.append(dict(NOMINAL, **{k: v}))
    # p-tag limit applies to kinds 1 and 7 only; the service kind by the service key and by someone else
    for kind in (7, 5):
        for n in (2, 3):
            out.append(dict(NOMINAL, kind=kind, ptags=n))
    # an unverifiable signature in forms on which the verifier raises rather than returns: the policy chain must not go on
    out.append(dict(NOMINAL, signed=False, _sig="short"))
    out.append(dict(NOMINAL, signed=False, _sig="zero"))
    out.append(dict(NOMINAL, signed=False, _sig="short", len=21))
    # an author who is not on the list (or is on the deny list) posting under a genuine NIP-26 delegation of a listed key:
    # the lists are about the event's own pubkey
    out.append(dict(NOMINAL, pk="D", _deleg="A"))
    out.append(dict(NOMINAL, pk="C", _deleg="A"))
    out.append(dict(NOMINAL, pk="B", _deleg="C"))
    out.append(dict(NOMINAL, kind=31494, pk="S"))
    out.append(dict(NOMINAL, kind=31494, pk="B"))
    # two policies objecting at once: the reason must be the first one's
    pairs = [("len", 21), ("age", 1001), ("age", -3601), ("kind", 2), ("pk", "C"), ("pk", "D"), ("pow", 3), ("ptags", 3), ("signed", False)]
    for (a, va), (b, vb) in itertools.combinations(pairs, 2):
        if a != b:
            out.append(dict(NOMINAL, **{a: va, b: vb}))
    seen = {}
    for v in out:
        seen.setdefault(repr(sorted(v.items())), v)
    return list(seen.values())


def build_event(v, n):
    """attribute vector -> real event with exactly these attributes (the id is ground to the wanted number of zero bits)"""
    tags = [["p", C.pubkey("B")] for _ in range(v["ptags"])]
    if v.get("_deleg"):
        tags.append(C.delegation_tag(v["_deleg"], v["pk"]))
    if v["kind"] == 31494:
        tags.append(["d", "x%d" % n])
    base = "c" * v["len"]
    nonce = 0
    while True:
        # vary a tag (not the content: its length is an attribute) until the id has exactly v["pow"] leading zero bits
        t = tags + [["nonce", "%d-%d" % (n, nonce)]]
        ev = C.mk_event(v["pk"], kind=v["kind"], created_at=NOW - v["age"], tags=t, content=base)
        bits = 256 - int(ev["id"], 16).bit_length()
        if bits == v["pow"]:
            break
        nonce += 1
    if not v["signed"]:
        form = v.get("_sig", "flip")
        if form == "short":
            ev["sig"] = "00"                 # the verifier raises instead of answering: still a refusal by is_signed
        elif form == "zero":
            ev["sig"] = "00" * 64
        else:
            ev["sig"] = ev["sig"][:-2] + ("00" if ev["sig"][-2:] != "00" else "01")
    return ev


def pipelines(rnd, tier):
    out = [[v] for v in ALL]
    out.append(list(ALL))
    out.append(list(reversed(ALL)))
    for _ in range({"quick": 14, "thorough": 120}[tier]):
        k = rnd.randint(2, 6)
        p = rnd.sample(ALL, k)
        out.append(p)
    return out


def _worker(payload):
    backend, pipes, vectors = payload
    from .. import storedrv as D
    import nostr_relay.validators as validators

    validators.time = lambda: float(NOW)
    events = [build_event(v, n) for n, v in enumerate(vectors)]

    async def main():
        out = []
        for pipe in pipes:
            with C.Scratch() as d:
                st = await D.open_storage(backend, d if backend == "lmdb" else None, validators=["nostr_relay.validators." + x for x in pipe])
                rec = D.Recorder(st)
                lines = []
                try:
                    for v, ev in zip(vectors, events):
                        reason = ""
                        try:
                            _, changed = await st.add_event(D._clone(ev))
                            ok = bool(changed)
                        except Exception as e:
                            ok = False
                            reason = str(e)
                        if backend == "lmdb":
                            while st._verif_gate.items:
                                D.writer_step(st, 1)
                            ids = set(C.lmdb_dump_ids(st))
                        else:
                            ids = set(await C.sql_dump_ids(st))
                        names = set()
                        for frag, who in REASONS:
                            if frag in reason:
                                names |= who
                        lines.append({"pipe": pipe, "e": v, "ok": ok, "reason": names, "stored": ev["id"] in ids,
                                      "bcast": ev["id"] in rec.take(), "_reason": reason})
                finally:
                    await D.close_storage(st)
                out.append(lines)
        return out

    return asyncio.run(main())


def defs(require_pow=None):
    return {"TD_ValCfg": {"max_size": CFG["max_size"], "oldest": CFG["oldest"], "valid_kinds": set(CFG["valid_kinds"]),
                          "whitelist": set(CFG["whitelist"]), "blacklist": set(CFG["blacklist"]),
                          "require_pow": CFG["require_pow"] if require_pow is None else require_pow,
                          "hell_limit": CFG["hell_limit"], "service_pk": CFG["service_pk"]}}


def relay_config(require_pow=None):
    return {"max_event_size": CFG["max_size"], "oldest_event": CFG["oldest"], "valid_kinds": CFG["valid_kinds"],
            "pubkey_whitelist": [C.pubkey(k) for k in CFG["whitelist"]], "pubkey_blacklist": [C.pubkey(k) for k in CFG["blacklist"]],
            "require_pow": CFG["require_pow"] if require_pow is None else require_pow, "hellthread_limit": CFG["hell_limit"],
            "service_privatekey": C.SECRETS["S"]}


def pow_sweep(out, tier):
    """the proof-of-work bound is a parameter: every requirement from 1 to 9 (thorough: to 13) bits - all residues modulo the
    four bits of a hex digit - against ids ground to exactly r-2 .. r+1 leading zero bits, is_pow alone and after is_signed"""
    reqs = range(1, 10) if tier == "quick" else range(1, 14)
    for r in reqs:
        vectors = [dict(NOMINAL, pow=b) for b in range(max(0, r - 2), r + 2)]
        pipes = [["is_pow"], ["is_signed", "is_pow"]]
        payloads = [(b, pipes, vectors) for b in ("sql", "lmdb")]
        results = pool.map_in_workers("harness.checks.c16", "_worker", payloads, config=relay_config(r))
        traces = [tr for res in results for tr in res]
        verdicts, vstats = tracedata.validate("Validators_Trace", defs(r), traces, batch=8)
        out.add_model(vstats)
        for k, tr in enumerate(traces):
            out.cov["traces_validated_against_impl"] += 1
            out.cov["evaluations"] += len(tr)
            for b in verdicts[k]:
                ln = tr[b[1] - 1]
                what = "C16 is_pow with require_pow=%d: %s for an id with %d leading zero bits -> ok=%s reason=%r stored=%s" % (
                    r, b[0], ln["e"]["pow"], ln["ok"], ln["_reason"], ln["stored"])
                out.violation(what, {"formula": b[0], "backend": "sql" if k < len(pipes) else "lmdb", "line": ln}, None)
                break
    out.notes["pow_requirements_swept"] = list(reqs)


def run(prop, tier, seed, **kw):
    from . import dynlists

    out = Outcome("C16", tier, seed, "model_checking")
    rnd = random.Random(seed)
    vectors = attribute_vectors()
    pipes = pipelines(rnd, tier)
    payloads = [(b, pipes[k:k + 3], vectors) for b in ("sql", "lmdb") for k in range(0, len(pipes), 3)]
    results = pool.map_in_workers("harness.checks.c16", "_worker", payloads, config=relay_config())
    traces = [tr for res in results for tr in res]
    backs = [p[0] for p in payloads for _ in range(len(p[1]))]
    verdicts, vstats = tracedata.validate("Validators_Trace", defs(), traces, batch=8)
    out.add_model(vstats)
    distinct = set()
    samples = []
    for k, tr in enumerate(traces):
        out.cov["traces_validated_against_impl"] += 1
        out.cov["evaluations"] += len(tr)
        for ln in tr:
            if not ln["ok"]:
                distinct.add((backs[k], tuple(ln["pipe"]), repr(sorted(ln["e"].items()))))
        if len(samples) < 3 and k % 7 == 3:
            samples.append({"backend": backs[k], "pipeline": tr[0]["pipe"], "lines": [{x: (sorted(y) if isinstance(y, set) else y) for x, y in ln.items()} for ln in tr[:4]]})
        for b in verdicts[k]:
            ln = tr[b[1] - 1]
            what = "C16 on %s pipeline %s: %s for event %s -> ok=%s reason=%r stored=%s bcast=%s" % (
                backs[k], ln["pipe"], b[0], ln["e"], ln["ok"], ln["_reason"], ln["stored"], ln["bcast"])
            out.violation(what, {"formula": b[0], "backend": backs[k], "line": ln}, lambda p, tr=tr, b=b: _dump(p, tr, b))
            break
    pow_sweep(out, tier)
    dynlists.run_into(out, tier, seed)
    out.cov["distinct_nontrivial"] = len(distinct) + out.notes.get("dynlists_nontrivial", 0)
    out.cov["rule"] = ("validators: %d attribute vectors (nominal; every single deviation at, just inside and just outside each bound: "
                       "content length 19/20/21 of 20, age 999/1000/1001 of 1000 s and 3599/3600/3601 s ahead, kinds in/out of "
                       "valid_kinds, white/black-listed authors, 3/4/5 leading zero bits of 4 (ids really ground), 1/2/3 p tags of 2 on "
                       "kinds 1, 7 and 5, service kind by service key / other; all pairs of objections) x %d pipelines (each validator "
                       "alone, all nine in two orders, seeded subsets and orders) x both backends through add_event; non-trivial = a "
                       "refusal. dynamic lists: see notes" % (len(vectors), len(pipes)))
    out.cov["samples"] = samples or [{"note": "none"}]
    return out


def _dump(path, tr, b):
    import json
    import os

    os.makedirs(os.path.dirname(path), exist_ok=True)
    with open(path, "w") as fp:
        json.dump({"meta": {"property": "C16"}, "verdict": b,
                   "trace": [{x: (sorted(y) if isinstance(y, set) else y) for x, y in ln.items()} for ln in tr]}, fp, indent=1, default=str)
