"""
C16, dynamic lists: the real ListBuilder.run_once is run on a real storage holding list events; the module-level
ALLOWED_PUBKEYS / DENIED_PUBKEYS are replaced (harness-side) by a set subclass that reports every mutation, and after
every mutation the real is_pubkey_allowed is asked about every key, so every state a validator thread could observe
is observed.  TLC judges the observations against DynLists.tla (DynLists_Trace.tla) and model-checks the transcribed
refresh algorithm against all interleavings with readers (MC_DynLists).
"""
import asyncio
import random

from .. import common as C
from .. import pool, tlc, tracedata
from ..universe import Universe, abs_filter_tla
from .storefam import E

KEYS = ["A", "B", "C", "D", "S"]
STATIC = ["S", "D"]           # service key + pubkey_whitelist
ALLOW_QUERY = {"kinds": [3], "authors": ["A"]}


class SpySet(set):
    hook = None

    def _after(self):
        if SpySet.hook is not None:
            SpySet.hook()

    def clear(self):
        super().clear()
        self._after()

    def update(self, *a):
        super().update(*a)
        self._after()

    def intersection_update(self, *a):
        super().intersection_update(*a)
        self._after()

    def difference_update(self, *a):
        super().difference_update(*a)
        self._after()

    def symmetric_difference_update(self, *a):
        super().symmetric_difference_update(*a)
        self._after()

    def add(self, x):
        super().add(x)
        self._after()

    def discard(self, x):
        super().discard(x)
        self._after()

    def remove(self, x):
        super().remove(x)
        self._after()

    def pop(self):
        v = super().pop()
        self._after()
        return v

    def __ior__(self, o):
        super().__ior__(o)
        self._after()
        return self

    def __iand__(self, o):
        super().__iand__(o)
        self._after()
        return self

    def __isub__(self, o):
        super().__isub__(o)
        self._after()
        return self


def list_universe():
    return [
        E("L1", "A", 3, 10, [["p", "B"]]),
        E("L2", "A", 3, 20, [["p", "B"], ["p", "C"]]),
        E("L3", "A", 3, 30, [["p", "C"]]),
        E("L4", "A", 3, 40, [["t", "x"]]),
        E("L5", "A", 3, 50, [["p", "B"], ["p", "A"]]),
        E("N1", "B", 3, 60, [["p", "D"]]),          # someone else's contact list: not part of the query
        E("N2", "A", 1, 70, [["p", "C"]]),          # another kind
    ]


class Stub:
    def __init__(self, pk):
        self.pubkey = pk


def _worker(payload):
    backend, orders = payload[:2]
    from .. import storedrv as D
    import nostr_relay.dynamic_lists as dl
    from nostr_relay.config import Config

    uni = Universe(list_universe())
    sym_of_key = {bytes.fromhex(C.pubkey(k)): k for k in KEYS}

    async def one(order):
        with C.Scratch() as d:
            st = await D.open_storage(backend, d if backend == "lmdb" else None)
            dl.ALLOWED_PUBKEYS = SpySet()
            dl.DENIED_PUBKEYS = SpySet()
            orig_get = dl.get_storage
            dl.get_storage = lambda: st
            lines = []

            def observe():
                allow = {sym_of_key.get(k, "?") for k in dl.ALLOWED_PUBKEYS}
                for k in KEYS:
                    try:
                        dl.is_pubkey_allowed(Stub(C.pubkey(k)), Config)
                        ok = True
                    except Exception:
                        ok = False
                    lines.append({"a": "Read", "key": k, "allowed": ok, "allow": set(allow)})

            try:
                builder = dl.ListBuilder()
                builder.log = _Quiet()
                for sym in order:
                    await st.add_event(D._clone(uni.conc[sym]))
                    if backend == "lmdb":
                        while st._verif_gate.items:
                            D.writer_step(st, 1)
                    store = await D.dump_ids(st, backend, uni)
                    lines.append({"a": "Start", "store": set(store)})
                    SpySet.hook = observe
                    try:
                        await builder.run_once()
                    finally:
                        SpySet.hook = None
                    lines.append({"a": "Done", "allow": {sym_of_key.get(k, "?") for k in dl.ALLOWED_PUBKEYS}})
            finally:
                dl.get_storage = orig_get
                await D.close_storage(st)
            return lines

    async def main():
        return [await one(o) for o in orders]

    return asyncio.run(main())


def _startup_worker(payload):
    """
    Several worker processes of one relay (gunicorn forks them from a master that has imported the application): each runs
    web.start_mainprocess_tasks(storage) at start-up, and each has its own copy of the lists, kept by its own refresher.
    The master here is this pool worker; the children are forked one after the other, open the shared database, run the
    real start-up function, wait for the first refresh and report their allow list.
    """
    backend, nworkers, syms = payload
    import json as _json
    import os
    import time
    from .. import storedrv as D

    uni = Universe(list_universe())
    sym_of_key = {bytes.fromhex(C.pubkey(k)): k for k in KEYS}
    import nostr_relay.web as web          # (the application module is imported before the fork, as with gunicorn's preload)

    web.is_main_process.clear()
    lines = []
    with C.Scratch(prefix="dynstart-") as d:
        async def fill():
            st = await D.open_storage(backend, d, sync_writer=True)
            for s_ in syms:
                await st.add_event(D._clone(uni.conc[s_]))
                if backend == "lmdb":
                    while st._verif_gate.items:
                        D.writer_step(st, 1)
            store = await D.dump_ids(st, backend, uni)
            await D.close_storage(st)
            return store
        store = asyncio.run(fill())
        for w in range(nworkers):
            r, wfd = os.pipe()
            pid = os.fork()
            if pid == 0:
                code = 0
                try:
                    os.close(r)
                    import nostr_relay.dynamic_lists as dl

                    async def child():
                        st = await D.open_storage(backend, d, sync_writer=False)
                        dl.get_storage = lambda: st
                        await web.start_mainprocess_tasks(st)
                        t0 = time.time()
                        seen = None
                        # the first refresh runs in a task of its own: wait until the list has settled
                        while time.time() - t0 < 3.0:
                            await asyncio.sleep(0.05)
                            cur = set(dl.ALLOWED_PUBKEYS)
                            if cur and cur == seen:
                                break
                            seen = cur
                        return sorted(sym_of_key.get(k, "?") for k in dl.ALLOWED_PUBKEYS)
                    allow = asyncio.run(child())
                    os.write(wfd, _json.dumps(allow).encode())
                except BaseException as e:       # noqa: B902 - the child must never return into the pool worker's code
                    os.write(wfd, _json.dumps({"error": "%s: %s" % (type(e).__name__, e)}).encode())
                    code = 1
                finally:
                    os._exit(code)
            os.close(wfd)
            data = b""
            while True:
                chunk = os.read(r, 65536)
                if not chunk:
                    break
                data += chunk
            os.close(r)
            os.waitpid(pid, 0)
            got = _json.loads(data.decode() or "null")
            if not isinstance(got, list):
                raise RuntimeError("worker start-up scenario failed to run: %r" % (got,))
            lines.append({"a": "Worker", "w": w + 1, "store": set(store), "allow": set(got)})
    web.is_main_process.clear()
    return lines


class _Quiet:
    def __getattr__(self, name):
        return lambda *a, **k: None


def apalache_inductive():
    """
    Unbounded-history argument for the repaired refresher: Apalache discharges DynLists!IndInv as an inductive invariant
    (initiation, consecution from every state satisfying it, and IndInv => C16_NoEmptyWindow / C16_ListExact) over five keys
    and every subset as a query result.  A supplement to TLC's exhaustive run; skipped (and said so) when apalache-mc is absent.
    """
    import shutil
    import subprocess
    import tempfile

    exe = shutil.which("apalache-mc")
    if not exe:
        return {"ran": False, "why": "apalache-mc not on PATH"}
    res = {"ran": True}
    with tempfile.TemporaryDirectory(prefix="apa-") as d:
        for label, args in (("initiation", ["--init=Init", "--inv=IndInv", "--length=0"]),
                            ("consecution", ["--init=IndInit", "--inv=IndInv", "--length=1"]),
                            ("implies_C16_NoEmptyWindow", ["--init=IndInit", "--inv=C16_NoEmptyWindow", "--length=0"]),
                            ("implies_C16_ListExact", ["--init=IndInit", "--inv=C16_ListExact", "--length=0"])):
            try:
                p = subprocess.run([exe, "check"] + args + ["--out-dir=" + d, "MC_DynLists_ind.tla"], cwd=tlc.SPEC_DIR,
                                   stdout=subprocess.PIPE, stderr=subprocess.STDOUT, text=True, timeout=900)
                res[label] = "NoError" if "The outcome is: NoError" in p.stdout and p.returncode == 0 else "FAILED rc=%d" % p.returncode
            except subprocess.TimeoutExpired:
                res[label] = "timeout"
    res["ok"] = all(v == "NoError" for k, v in res.items() if k not in ("ran", "ok"))
    if not res["ok"]:
        raise tlc.TlcError("Apalache did not discharge DynLists!IndInv: %s" % res)
    res["tlaps"] = tlaps_proof()
    return res


def tlaps_proof():
    r"""
    DynLists_proofs.tla: the same inductive argument machine-checked by TLAPS for arbitrary Keys, Static and Targets
    (Init => IndInv, IndInv /\ [Next]_vars => IndInv', IndInv => C16_NoEmptyWindow /\ C16_ListExact, hence Spec => []C16).
    Checked from scratch in a temporary copy; skipped (and said so) when tlapm is absent.
    """
    import os
    import re
    import shutil
    import subprocess
    import tempfile

    exe = shutil.which("tlapm")
    if not exe:
        return {"ran": False, "why": "tlapm not on PATH"}
    with tempfile.TemporaryDirectory(prefix="tlaps-") as d:
        for f in ("DynLists.tla", "DynLists_proofs.tla"):
            shutil.copy(os.path.join(tlc.SPEC_DIR, f), d)
        try:
            p = subprocess.run([exe, "DynLists_proofs.tla"], cwd=d, stdout=subprocess.PIPE, stderr=subprocess.STDOUT, text=True, timeout=900)
        except subprocess.TimeoutExpired:
            raise tlc.TlcError("tlapm timed out on DynLists_proofs.tla")
    m = re.search(r"All (\d+) obligations proved", p.stdout)
    if not m or p.returncode != 0:
        raise tlc.TlcError("TLAPS did not prove DynLists_proofs.tla: " + p.stdout[-800:])
    return {"ran": True, "obligations_proved": int(m.group(1))}


def run_into(out, tier, seed):
    rnd = random.Random(seed)
    design = tlc.DesignCheck([("MC_DynLists", "MC_DynLists_repaired.cfg", "DynLists/repaired"),
                              ("MC_DynLists", "MC_DynLists_repaired_nostatic.cfg", "DynLists/repaired-no-static-keys")], workers=2, timeout=600)
    uni = Universe(list_universe())
    syms = [d["sym"] for d in list_universe()]
    orders = [syms, list(reversed(syms))]
    for _ in range({"quick": 10, "thorough": 120}[tier]):
        o = syms[:]
        rnd.shuffle(o)
        orders.append(o[: rnd.randint(2, len(o))])
    payloads = [(b, orders[k:k + 3]) for b in ("sql", "lmdb") for k in range(0, len(orders), 3)]
    traces = []
    verdicts = {}
    # two configurations: with preconfigured keys (service key + pubkey_whitelist) and without any (then consecutive lists
    # can be disjoint and only the order of the two set operations keeps the shared set from being empty in between)
    for static in (STATIC, []):
        cfg = {"dynamic_lists": {"allow_list_queries": [uni.conc_filter(ALLOW_QUERY)], "check_interval": 7200}}
        if static:
            cfg.update({"service_privatekey": C.SECRETS["S"], "pubkey_whitelist": [C.pubkey("D")]})
        results = pool.map_in_workers("harness.checks.dynlists", "_worker", payloads, config=cfg)
        part = [tr for res in results for tr in res]
        defs = {"TD_Universe": uni.tla_universe(), "TD_OneCharNames": set(uni.one_char_names()), "TD_Keys": set(KEYS), "TD_Static": set(static),
                "TD_AllowQuery": abs_filter_tla(ALLOW_QUERY)}
        # start-up of several worker processes over one database (each must build its own lists)
        starts = [(b, 3, o) for b in ("sql", "lmdb") for o in (syms[:2], syms)]
        part += pool.map_in_workers("harness.checks.dynlists", "_startup_worker", starts, config=cfg)
        v, vstats = tracedata.validate("DynLists_Trace", defs, part, batch=10)
        out.add_model(vstats)
        for k in range(len(part)):
            verdicts[len(traces) + k] = v[k]
        traces += part
    nontrivial = 0
    for k, tr in enumerate(traces):
        out.cov["traces_validated_against_impl"] += 1
        out.cov["evaluations"] += len(tr)
        nontrivial += sum(1 for ln in tr if ln["a"] == "Read" and not ln["allowed"])
        for b in verdicts[k]:
            ln = tr[b[1] - 1]
            what = "C16 dynamic lists: %s at line %d %s (refresh history: %s)" % (
                b[0], b[1], {x: (sorted(y) if isinstance(y, set) else y) for x, y in ln.items()},
                [sorted(x["store"]) for x in tr[:b[1]] if x["a"] == "Start"])
            out.violation(what, {"formula": b[0], "line": ln}, None)
            break
    design.join(out)
    out.notes["dynlists_inductive_invariant"] = apalache_inductive()
    out.notes["dynlists_nontrivial"] = nontrivial
    out.notes["dynlists"] = {"refresh_histories": len(traces), "observed_intermediate_reads": sum(1 for tr in traces for ln in tr if ln["a"] == "Read"),
                             "rule": "list events (kind 3 by A with p tags B / B,C / C / none / B,A; a foreign list; another kind) stored in seeded "
                                     "orders on both backends, run_once after each, every mutation of the allow set observed with the real "
                                     "is_pubkey_allowed asked about 5 keys"}
