"""
Connection-level checks: C13 (subscription protocol), C05 (live fan-out), C06 (one OK per EVENT, agreeing with the
storage outcome) and the frame part of C04.  TLC simulates Relay.tla; the environment actions of each behaviour (with
the model's internal steps turned into scheduling delays) are replayed on web.start_client for several connections
over a real storage object; the recorder's totally ordered log is validated against Relay.tla by TLC, which also
evaluates every property body on every step and the quiescence conditions on every Idle line.
"""
import asyncio
import random

from .. import common as C
from .. import pool, relaytrace, tlc
from ..report import Outcome
from ..universe import Universe
from .storefam import E

BACKENDS = ("sql", "lmdb")
NCONNS = 2
SUBLIMIT = 2

OWN = {
    "C13": ("C13_",),
    "C05": ("C05_",),
    "C06": ("C06_",),
    "C04": ("C04_",),
    "C03": ("C03_",),
    "C18": ("C18_",),
    "C19": ("C19_",),
}


def relay_universe():
    return [
        E("n1", "A", 1, 10, [["t", "a"]]),
        E("n2", "B", 7, 20, [["t", "a"], ["p", "A"]]),
        E("n3", "A", 1, 30, [["t", "b"]]),
        E("x1", "B", 20000, 40, [["t", "a"]]),
        E("r1", "A", 10000, 15, [["t", "b"]]),
        E("r2", "A", 10000, 25, [["t", "b"]]),
        E("n4", "B", 1, 31, [["t", "a"], ["t", "b"], ["p", "A"], ["p", "B"]]),     # the same tag name several times
        E("dl", "B", 1, 33, [["delegation", "A"], ["t", "b"]]),                   # B posts for A (NIP-26): matches authors:[A]
        E("fx", "B", 1, 35, [["t", "a"]], mutate=_wrong_id),      # signed correctly, id field is not the hash
        E("fs", "A", 1, 36, [["t", "a"]], mutate=_bad_sig),
        # events on which add_event raises something other than a StorageError (a signature that is not hex; a correctly
        # signed event with an empty tag): whatever the handler makes of them, OK=true needs a fan-out
        E("fh", "B", 1, 37, [["t", "a"]], mutate=_nonhex_sig),
        E("we", "A", 1, 38, [["t", "a"], []]),
        # a tag whose value is an array, beside an ordinary one: whatever matching makes of it, the tasks of its fan-out must
        # not disturb the next event's acknowledgement
        E("wl", "A", 1, 44, [["t", "lst"], ["t", "a"]]),
    ]


WEIRD_SYMTAB = {"i1": 1, "f1": 1.0, "i0": 0, "bF": False, "f0": 0.0, "i5": 5, "bT": True, "nN": None, "f15": 1.5, "lst": ["x", 1, None], "neg": -7, "big": 2 ** 53, "obj": {"k": "v"}, "e0": ""}


def _mixed_case(h):
    return "".join(ch.upper() if k % 2 else ch for k, ch in enumerate(h))


WEIRD_SYMTAB.update({"UX": "AB" * 32, "mixP": _mixed_case(C.pubkey("A")), "upE": ("0123456789abcdef" * 4).upper()})


def weird_events():
    return [
        # 64-digit hex tag items spelled with upper-case digits: the same bytes to a decoder, not the same text
        E("wx", "B", 1, 42, [["t", "a"], ["x", "UX"], ["p", "mixP"]]), E("wy", "A", 1, 43, [["t", "a"], ["e", "upE", "wss://r"], ["p", "mixP"]]),
        E("w1", "A", 1, 32, [["t", "a"], ["n", "i5", "bT", "nN", "f15"], ["q", "lst", "obj"], ["e0"], ["t", "e0", "neg", "big"]]),
        E("w2", "B", 7, 33, [["t", "a"], ["r", "f15", "i5"]]),
        # tags that are equal in Python but differ as JSON (1 / true / 1.0, 0 / false / 0.0)
        E("w3", "A", 1, 34, [["t", "a"], ["n", "i1"], ["z", "i0"]]),
        E("w4", "B", 1, 35, [["t", "a"], ["n", "bT"], ["z", "bF"]]),
        E("w5", "A", 7, 36, [["t", "a"], ["n", "f1"], ["z", "f0"]]),
        # representations a relay may be tempted to normalise: a bare d tag on a parameterised replaceable event, empty values
        E("wd", "A", 30000, 39, [["d"], ["t", "a"]]), E("wv", "B", 1, 41, [["t", "a"], ["t", "e0"], ["e"], ["p"]]),
    ]


def _wrong_id(ev, uni):
    ev = dict(ev)
    ev["id"] = "%064x" % (int(ev["id"], 16) ^ 0xFFFF)
    return ev


def _nonhex_sig(ev, uni):
    ev = dict(ev)
    ev["sig"] = "zz" + ev["sig"][2:]
    return ev


def _bad_sig(ev, uni):
    ev = dict(ev)
    ev["sig"] = ev["sig"][:-2] + ("00" if ev["sig"][-2:] != "00" else "01")
    return ev


FILTER_LISTS = [
    [{"kinds": [1]}],
    [{"tags": {"t": ["a"]}}],
    [None],                                   # nothing the relay will evaluate
    [{"authors": ["A"]}, None],               # partly invalid
    [{"kinds": [7, 20000]}, {"tags": {"t": ["b"]}}],
    [{"since": 15}],
    [{"kinds": [10000], "until": 20}],
]
SIDS = ["s1", "s2", "s3"]
SID_MAPS = {
    # (the empty string is a subscription id like any other)
    "plain": {"s1": "sub1", "s2": "sub2", "s3": ""},
    "hostile": {"s1": "s'1\"\\", "s2": "ä\U0001f600 2", "s3": "s3\n\t\u0001"},
}


LIMITER_OPTIONS = {"ip": {"REQ": "2/s,3/min", "EVENT": "1/s"}, "global": {"CLOSE": "2/s"}, "10.0.0.2": {"EVENT": "2/s"}}
LIMITER_RULES = {"ip": {"REQ": [[60, 3], [1, 2]], "EVENT": [[1, 1]]}, "global": {"CLOSE": [[1, 2]]}, "10.0.0.2": {"EVENT": [[1, 2]]}}
LIMITER_ADDRS = ["10.0.0.1", "10.0.0.2"]
LIMITER_CMDS = ["REQ", "EVENT", "CLOSE"]


def _make_limiter():
    from nostr_relay.rate_limiter import RateLimiter

    rl = RateLimiter(LIMITER_OPTIONS)
    rl.log = _Quiet()
    calls = [0]

    def clock():
        return calls[0] // 3          # about three messages per second of limiter time

    orig = rl.is_limited

    def counted(addr, message):
        calls[0] += 1
        return orig(addr, message)

    rl.is_limited = counted
    rl._starttime = 0
    rl._timestamp = clock
    return rl


class _Quiet:
    def __getattr__(self, name):
        return lambda *a, **k: None


def race_schedules():
    """hand-made additions to the TLC-simulated schedules: a second event is fanned out while the tasks of the first are still
    around (so the storage layer suspends before it notifies), and at that very moment another connection closes, replaces or
    opens a matching subscription"""
    out = []
    f_k1, f_ta, f_k7 = [{"kinds": [1]}], [{"tags": {"t": ["a"]}}], [{"kinds": [7, 20000]}, {"tags": {"t": ["b"]}}]
    for sub, pub in ((0, 1), (1, 0)):
        for first, second in (("n1", "n3"), ("n1", "n4"), ("n2", "n1")):
            for late in ({"m": "CLOSE", "sid": "s1"}, {"m": "REQ", "sid": "s1", "fs": f_k7}, {"m": "REQ", "sid": "s2", "fs": f_ta},
                         {"m": "REQ", "sid": "s1", "fs": [None]}):
                out.append([("open", sub), ("open", pub), ("msg", sub, {"m": "REQ", "sid": "s1", "fs": f_k1}), ("idle",),
                            ("msg", pub, {"m": "EVENT", "e": first}), ("idle",),
                            ("msg", pub, {"m": "EVENT", "e": second}), ("defer", sub, late), ("idle",),
                            ("msg", pub, {"m": "EVENT", "e": "n2" if "n2" not in (first, second) else "n3"}), ("idle",)])
    return out


def _with_deferred(sched, n):
    """in every other schedule, a REQ or CLOSE that follows another connection's EVENT is held back until that event's
    fan-out is suspended in the storage layer (the moment at which a registry change is most delicate)"""
    if n % 2:
        return sched
    out = []
    last = None
    for step in sched:
        if step[0] == "msg" and step[2]["m"] in ("REQ", "CLOSE") and last is not None and last[0] == "msg" and last[2]["m"] == "EVENT" \
                and last[1] != step[1]:
            out.append(("defer", step[1], step[2]))
        else:
            out.append(step)
        if step[0] in ("msg", "idle"):
            last = step
    return out


def _worker(payload):
    from .. import relaydrv, storedrv

    key, backend, scheds, sid_map_name = payload[:4]
    with_limiter = len(payload) > 4 and payload[4]
    uni = pool._CTX[key]
    sid_map = SID_MAPS[sid_map_name]

    async def main():
        out = []
        for n, sched in enumerate(scheds):
            with C.Scratch() as d:
                st = await storedrv.open_storage(backend, d, sync_writer=False, **({"num_concurrent_adds": 1} if backend == "sql" else {}))
                if n % 5 == 4:
                    # a worker whose cross-worker notifier is configured but not connected (the first seconds after start, or no
                    # notify server): announcing an event to the other workers fails - which must stay without consequence here
                    from nostr_relay.notifier import NotifyClient

                    st.notifier = NotifyClient(st)
                    st.notifier.log = _Quiet()
                try:
                    # every other schedule: all connections from one address, drawing the same random token
                    log, info, errs = await relaydrv.run_connections(st, uni, NCONNS, sched, sid_map,
                                                                     rate_limiter=_make_limiter() if with_limiter else None,
                                                                     same_addr=(n % 2 == 1 and not with_limiter))
                finally:
                    await storedrv.close_storage(st)
                out.append((relaytrace.log_to_trace(log, info, NCONNS), log, info, errs))
        return out

    return asyncio.run(main())


def run(prop, tier, seed, backends=BACKENDS, only_universe=None):
    out = Outcome(prop, tier, seed, "exploration" if prop == "C04" else "model_checking")
    rnd = random.Random(seed)
    design = tlc.DesignCheck([("MC_Relay", "MC_Relay_%s%s.cfg" % (b, "_quick" if tier == "quick" else ""), "Relay/" + b) for b in backends]
                             + ([("MC_Relay_live", "MC_Relay_live.cfg", "Relay/liveness-under-fairness")] if prop in ("C13", "C05") else []),
                             workers=3 if tier == "quick" else 7, timeout=3000)
    variants = [(Universe(relay_universe(), symtab=WEIRD_SYMTAB), "hostile" if prop == "C04" else "plain")]
    if prop == "C04":
        # contents, tag values and tag items that pass admission but stress the hand-written serialiser and both encodings
        for pal in ("quotes", "nul", "unicode", "bslash"):
            variants.append((Universe(relay_universe() + weird_events(), palette=pal, symtab=WEIRD_SYMTAB), "hostile"))
    num = {"quick": 40, "thorough": 400}[tier]
    cap = {"quick": {"sql": 160, "lmdb": 400}, "thorough": {"sql": 3000, "lmdb": 8000}}[tier]
    depth = {"quick": 14, "thorough": 20}[tier]
    own = OWN[prop]
    sid_map_name = "hostile" if prop == "C04" else "plain"
    distinct = set()
    samples = []
    other = {}
    all_items = {}
    for vn, (uni, sid_map_name) in enumerate(variants):
      scheds = {}
      for backend in backends:
        sc, gstats = relaytrace.gen_relay_schedules(uni, NCONNS, SIDS, FILTER_LISTS, SUBLIMIT, backend, depth, num, seed + vn)
        out.add_model(gstats)
        sc = sorted(sc, key=repr)
        sc = [_with_deferred(x, n) for n, x in enumerate(sc)]
        rnd.shuffle(sc)
        scheds[backend] = sc[:cap[backend] // (1 if len(variants) == 1 else 2)] + (race_schedules() if vn == 0 else [])
      payloads = []
      for backend in backends:
        sc = scheds[backend]
        for b in range(0, len(sc), 10):
            payloads.append(("uni", backend, sc[b:b + 10], sid_map_name, prop == "C18"))
      results = pool.map_in_workers("harness.checks.relayfam", "_worker", payloads, config={"subscription_limit": SUBLIMIT},
                                    shared={"uni": uni})
      per_backend = {b: [] for b in backends}
      for (key, backend, sc, _, _), res in zip(payloads, results):
        for sched, (tr, log, info, errs) in zip(sc, res):
            per_backend[backend].append((sched, tr, log, info, errs))
      for backend in backends:
        items = per_backend[backend]
        all_items.setdefault(backend, []).extend(items)
        verdicts, vstats = relaytrace.validate_relay_traces(uni, NCONNS, SIDS, SUBLIMIT, backend, [it[1] for it in items])
        out.add_model(vstats)
        for k, (sched, tr, log, info, errs) in enumerate(items):
            out.cov["evaluations"] += 1
            out.cov["traces_validated_against_impl"] += 1
            if _nontrivial(prop, tr):
                distinct.add((backend, repr(sched)))
            if len(samples) < 2 and k % 41 == 7:
                samples.append({"backend": backend, "schedule": sched, "trace": tr[:40]})
            bad = verdicts[k]
            if errs:
                bad = bad + [["Harness_" + errs[0].replace(" ", "_"), 0]]
            # (a fan-out that reaches a subscription which is no longer registered is also C13's business: "after CLOSE, after a
            #  REQ reusing the same id ... no further event is sent for the old subscription")
            mine = [b for b in bad if b[0].startswith(own) or (b[0] == "Conform" and _conform_owner(tr, b[1]) == prop)
                    or (prop == "C13" and b[0] == "C05_FanOutExact")]
            for b in bad:
                if b not in mine:
                    other[b[0]] = other.get(b[0], 0) + 1
            if mine:
                first = mine[0]
                ln = tr[first[1] - 1] if first[1] else {}
                attrs = {"backend": backend, "formula": first[0], "line": ln, "schedule": sched, "trace": tr}
                what = "%s on %s: %s at line %d %s; schedule=%s" % (prop, backend, first[0], first[1], ln, sched)
                out.violation(what, attrs, lambda p, sched=sched, tr=tr, log=log, bad=bad, backend=backend: _dump(p, prop, backend, sched, tr, log, bad))
    if prop == "C18":
        from .. import tracedata

        rl_traces = []
        for backend in backends:
            for (sched, tr, log, info, errs) in all_items.get(backend, []):
                calls = [ln for ln in log if ln["a"] == "LimiterCalls"]
                if calls:
                    rl_traces.append([{"a": "Arrive", "t": int(t), "addr": addr, "cmd": cmd, "lim": lim,
                                       "dq": {k: {c: dq.get(k, {}).get(c, []) for c in LIMITER_CMDS} for k in ["global"] + LIMITER_ADDRS}}
                                      for (addr, cmd, lim, t, dq) in calls[0]["calls"] if cmd in LIMITER_CMDS and addr in LIMITER_ADDRS])
        defs = {"TD_Addrs": set(LIMITER_ADDRS), "TD_Cmds": set(LIMITER_CMDS), "TD_Rules": LIMITER_RULES}
        v2, st2 = tracedata.validate("RateLimiter_Trace", defs, rl_traces, batch=100)
        out.add_model(st2)
        for k, tr in enumerate(rl_traces):
            out.cov["traces_validated_against_impl"] += 1
            for b in v2[k]:
                if b[0].startswith("C18_") or b[0] == "Conform":
                    what = "C18 in the handler loop: %s at limiter call %d %s" % (b[0], b[1], {x: y for x, y in tr[b[1] - 1].items() if x != "dq"})
                    out.violation(what, {"formula": b[0], "line": tr[b[1] - 1], "rules": LIMITER_RULES, "trace": tr, "lineno": b[1]}, None)
                    break
    design.join(out)
    out.cov["distinct_nontrivial"] = len(distinct)
    out.cov["rule"] = ("behaviours of Relay.tla produced by TLC -simulate (depth %d, %d per backend, seed-dependent), projected on "
                       "their client messages for %d connections x %d sub ids x %d filter lists (valid, empty, partly invalid) with "
                       "the model's internal steps turned into scheduling delays; run on web.start_client over DBStorage/LMDBStorage; "
                       "a case is (backend, schedule); non-trivial = %s" % (depth, num, NCONNS, len(SIDS), len(FILTER_LISTS), _RULE[prop]))
    out.cov["samples"] = samples or [{"note": "none"}]
    out.notes["violations_of_other_properties_seen"] = other
    return out


_RULE = {
    "C13": "a subscription was started and later closed, replaced, refused or disconnected",
    "C05": "a fan-out created at least one notify task",
    "C06": "an EVENT was answered",
    "C04": "at least three frames were sent",
    "C03": "a forged event was submitted over the websocket path",
    "C18": "the limiter refused a message of a connection",
    "C19": "a connection ended",
}


def _conform_owner(tr, lineno):
    """which property a step that no Relay action explains belongs to, by the kind of step"""
    ln = tr[lineno - 1] if 0 < lineno <= len(tr) else {}
    a = ln.get("a")
    if a == "Limited" or any(x.get("a") == "Limited" for x in tr[max(0, lineno - 3):lineno]):
        return "C18"
    if a in ("FanOut", "Notify"):
        return "C05"
    if a in ("Submit", "Accept") or (a == "Send" and ln["f"]["t"] == "OK"):
        return "C06"
    return "C13"


def _nontrivial(prop, tr):
    if prop == "C13":
        started = any(ln["a"] == "Req" and ln["out"] == "started" for ln in tr)
        return started and any(ln["a"] in ("Close", "Drop") or (ln["a"] == "Req" and ln["out"] != "started") for ln in tr)
    if prop == "C05":
        return any(ln["a"] == "FanOut" and ln["targets"] for ln in tr)
    if prop == "C06":
        return any(ln["a"] == "Send" and ln["f"]["t"] == "OK" for ln in tr)
    if prop == "C04":
        return sum(1 for ln in tr if ln["a"] == "Send") >= 3
    if prop == "C03":
        return any(ln["a"] == "Submit" and ln["e"] in ("fx", "fs") for ln in tr)
    if prop == "C18":
        return any(ln["a"] == "Limited" for ln in tr)
    return any(ln["a"] == "Drop" for ln in tr)


def _dump(path, prop, backend, sched, tr, log, bad):
    import json
    import os

    os.makedirs(os.path.dirname(path), exist_ok=True)
    with open(path, "w") as fp:
        json.dump({"meta": {"property": prop, "backend": backend}, "verdict": bad, "schedule": sched, "trace": tr, "log": log},
                  fp, indent=1, default=lambda o: sorted(o) if isinstance(o, (set, frozenset)) else str(o))
