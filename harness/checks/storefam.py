"""
Store-level checks (C06, C08, C09, C17 and the store part of C03): TLC
generates behaviours of Store.tla over property-specific universes, the
driver runs their environment actions on the real DBStorage / LMDBStorage and
records complete-state traces, TLC validates every trace against Store.tla
and evaluates every property body on every step (Store_Trace.tla).
"""
import os
import random

from .. import common as C
from .. import gen, pool, tlc, trace
from ..report import Outcome
from ..universe import Universe

BACKENDS = ("sql", "lmdb")


def E(sym, pk, kind, ts, tags=None, **kw):
    d = {"sym": sym, "pk": pk, "kind": kind, "ts": ts, "tags": tags or []}
    d.update(kw)
    return d


# ---------------------------------------------------------------------------------------------
# universes

def universes_c09():
    us = {}
    us["repl"] = [
        E("a1", "A", 10000, 10), E("a2", "A", 10000, 20), E("a2x", "A", 10000, 20, [["t", "tie"]]), E("a3", "A", 10000, 30),
        E("b1", "B", 10000, 15), E("k1", "A", 10001, 5), E("n1", "A", 1, 5),
        # a newer version that is malformed where no validator looks (an expiration tag without a value): if the relay refuses it,
        # the versions that are stored stay
        E("ax", "A", 10000, 40, [["expiration"]], dub=True),
    ]
    us["meta"] = [
        E("m1", "A", 0, 10), E("m2", "A", 0, 20), E("m3", "A", 0, 30), E("c1", "A", 3, 15), E("c2", "A", 3, 25),
        E("mb", "B", 0, 5), E("n1", "A", 1, 5),
    ]
    us["dsub"] = [
        E("pa1", "A", 30000, 10, [["d", "a"]]), E("pab", "A", 30000, 20, [["d", "ab"]]), E("pabc", "A", 30000, 30, [["d", "abc"]]),
        E("pa2", "A", 30000, 40, [["d", "a"]]), E("pab0", "A", 30000, 5, [["d", "ab"]]), E("pb", "B", 30000, 1, [["d", "a"]]),
        E("pk", "A", 30001, 1, [["d", "a"]]),
    ]
    # several addresses of one author and kind written in the same second (ids in both byte orders), with older and newer
    # versions of one of them: the writer walks author+kind newest first and meets the neighbours before the versions
    us["dtie"] = [
        E("ta", "A", 30000, 20, [["d", "a"]]), E("tb", "A", 30000, 20, [["d", "b"]]), E("tc", "A", 30000, 20, [["d", "c"]], id_prefix="ff"),
        E("t0", "A", 30000, 20, [["d", "z"]], id_prefix="00"), E("ta0", "A", 30000, 10, [["d", "a"]]), E("ta9", "A", 30000, 30, [["d", "a"]]),
        E("tn", "A", 30000, 20),
    ]
    us["dempty"] = [
        E("q0", "A", 30000, 10), E("qb", "A", 30000, 20, [["d"]]), E("qe", "A", 30000, 30, [["d", ""]]),
        E("qa", "A", 30000, 15, [["d", "a"]]), E("q1", "A", 30000, 40), E("qa2", "A", 30000, 35, [["d", "a"]]),
        E("qt", "A", 30000, 25, [["t", "x"], ["d", ""]]),
        E("qx", "A", 30000, 50, [["d", "a"], ["expiration"]], dub=True),
    ]
    us["bounds"] = [
        E("r19a", "A", 19999, 10), E("r19b", "A", 19999, 20), E("e20a", "A", 20000, 10), E("e20b", "A", 20000, 20),
        E("g99a", "A", 9999, 10), E("g99b", "A", 9999, 20), E("p39a", "A", 39999, 10, [["d", "x"]]),
        E("p39b", "A", 39999, 20, [["d", "x"]]), E("g40a", "A", 40000, 10, [["d", "x"]]), E("g40b", "A", 40000, 20, [["d", "x"]]),
        E("e29a", "A", 29999, 10), E("p30a", "A", 30000, 10, [["d", "x"]]), E("p30b", "A", 30000, 20, [["d", "x"]]),
    ]
    us["dunicode"] = [
        E("ua", "A", 30000, 10, [["d", "uml"]]), E("ub", "A", 30000, 20, [["d", "a"]]), E("uc", "A", 30000, 30, [["d", "uml"]]),
        E("ud", "A", 30000, 25, [["d", "umlx"]]), E("ue", "A", 30000, 5, [["d", "a"], ["d", "uml"]]),
    ]
    return us


def universes_c08():
    us = {}
    us["del"] = [
        E("n1", "A", 1, 10), E("n2", "A", 1, 30), E("nb", "B", 1, 10),
        E("dA", "A", 5, 20, [["e", "n1"], ["e", "n2"], ["e", "nb"], ["e", "zz"]]),
        E("dB", "B", 5, 20, [["e", "n1"], ["p", "A"]]),
        E("dd", "A", 5, 40, [["e", "dA"]]),
        E("dC", "C", 5, 50, [["e", "n1"], ["e", "nb"], ["e", "dA"]]),
    ]
    # deletions that reference nothing deletable by id: no tags, an `a` coordinate, a bare e tag, a p tag only
    us["delnone"] = [
        E("n1", "A", 1, 10), E("n2", "A", 1, 20), E("r1", "A", 30000, 15, [["d", "x"]]), E("nb", "B", 1, 10),
        E("d0", "A", 5, 50), E("da", "A", 5, 51, [["a", "acoord"]]), E("de", "A", 5, 52, [["e"]]), E("dp", "A", 5, 53, [["p", "B"]]),
        E("dm", "A", 5, 54, [["e"], ["e", "n1"]]),
        # a deletion that names another author's event by its coordinate (an `a` tag): whatever a relay makes of `a` tags, it
        # must not let A remove B's event
        E("rb", "B", 30000, 16, [["d", "x"]]), E("dab", "A", 5, 55, [["a", "bcoord"]]),
    ]
    us["delmix"] = [
        E("r1", "A", 10000, 10), E("p1", "A", 30000, 10, [["d", "a"]]), E("n1", "A", 1, 10), E("nb", "B", 1, 10),
        E("d1", "A", 5, 20, [["e", "r1"], ["e", "p1"]]),
        E("d2", "A", 5, 5, [["e", "n1"]]),          # deletion older than its target
        E("d3", "A", 5, 10, [["e", "n1"]]),         # deletion with the target's timestamp
        E("dx", "B", 5, 20, [["e", "nb"], ["e", "nb"]]),   # duplicate reference
    ]
    # targets at the byte-order edges of the deleter's index walk: one second older than the deletion, ids starting 0xff / 0x00,
    # an own event with the deletion's own timestamp (need not go), a foreign event in between
    us["deledge"] = [
        E("nf", "A", 1, 29, id_prefix="ff"), E("n0", "A", 1, 29, id_prefix="00"), E("nm", "A", 1, 29), E("ne", "A", 1, 30, id_prefix="ff"),
        E("nb", "B", 1, 29, id_prefix="ff"), E("n1", "A", 1, 1),
        E("dd", "A", 5, 30, [["e", "nf"], ["e", "n0"], ["e", "nm"], ["e", "ne"], ["e", "nb"], ["e", "n1"]]),
    ]
    return us


def universes_c17():
    us = {}
    us["gc"] = [
        E("n1", "A", 1, 10), E("r19", "A", 19999, 10), E("e20", "A", 20000, 10), E("e29", "A", 29999, 10), E("p30", "A", 30000, 10),
        E("x14", "A", 1, 11, [["expiration", "t14"]]), E("x15", "A", 1, 12, [["expiration", "t15"]]),
        E("x16", "A", 1, 13, [["expiration", "t16"]]), E("xfar", "B", 1, 14, [["expiration", "t900000"]]),
        E("xbad", "B", 1, 15, [["expiration", "soon"]]),
        E("xe", "B", 20001, 16, [["expiration", "t900000"]]),
        E("x2", "A", 1, 17, [["expiration", "t13"], ["expiration", "t14"]]),       # two expiration tags, both past at every pass
        E("x3", "B", 1, 18, [["expiration", "t800000"], ["expiration", "t900000"]]),
    ]
    # expiration values whose digit count differs from the clock's, a leading zero, an integer-typed value
    us["gcdigits"] = [
        E("n1", "A", 1, 10), E("x14", "A", 1, 11, [["expiration", "t14"]]), E("x16", "A", 1, 13, [["expiration", "t16"]]),
        E("x999", "A", 1, 12, [["expiration", "v999"]], exp=["n", -1699999001]),
        E("xbig", "A", 1, 14, [["expiration", "vbig"]], exp=["n", 2000000000]),
        E("xz14", "B", 1, 15, [["expiration", "vz14"]], exp=["n", 14]),
        E("xi14", "B", 1, 16, [["expiration", "vi14"]], exp=["n", 14]),
        E("xneg", "B", 1, 17, [["expiration", "vneg"]], exp=["bad"]),
        # malformed values that begin with digits (a date, an exponent, a fraction): not timestamps - never collected
        E("xiso", "B", 1, 18, [["expiration", "viso"]], exp=["bad"]), E("xexp", "B", 1, 19, [["expiration", "vexp"]], exp=["bad"]),
        E("xfrac", "B", 1, 20, [["expiration", "vfrac"]], exp=["bad"]),
    ]
    # few events, longer behaviours: an event that was collected and is then submitted again must be collected again
    us["regc"] = [E("n1", "A", 1, 10), E("x14", "A", 1, 11, [["expiration", "t14"]]), E("x16", "A", 1, 13, [["expiration", "t16"]])]
    return us


def universes_c06():
    us = {}
    us["ack"] = [
        E("n1", "A", 1, 10), E("n2", "A", 1, 20, [["t", "x"], ["t"], ["e", "n1", "relay", "extra"]]),
        E("r1", "A", 10000, 10), E("r2", "A", 10000, 20), E("p1", "A", 30000, 10, [["d", "a"]]), E("p2", "A", 30000, 20, [["d", "a"]]),
        E("d1", "A", 5, 30, [["e", "n1"], ["e", "r2"]]), E("x1", "A", 20000, 10),
        E("fg", "A", 1, 10, mutate=_forge_content), E("fs", "B", 1, 10, mutate=_forge_sig),
        # authentic but malformed where no validator looks (a deletion with a reference that is not an id, an expiration tag
        # without a value): the relay may refuse them, but a refusal must leave no trace - they fail late, inside the write
        E("dx", "A", 5, 31, [["e", "n1"], ["e", "nothex"]], dub=True), E("xb", "A", 1, 12, [["expiration"]], dub=True),
        # authentic events beyond what a storage engine may be able to represent (LMDB keys hold four-byte timestamps and at most
        # 511 bytes): a relay may refuse them - with a reason and without a trace - but must not acknowledge and then lose them
        E("ot", "A", 1, 13, created_at=2 ** 32, dub=True), E("ng", "A", 1, 14, created_at=-5, dub=True),
        E("lt", "A", 1, 15, [["t", "big"]], dub=True), E("bi", "A", 1, 16, [["t", "a", "huge"]], dub=True),   # (a JSON number msgpack cannot hold)
    ]
    # neighbours in the replaceable address space: same author and kind under other d values (older and newer), the same kind
    # of another author, the next kind - an acknowledged event may only give way to a newer version of its own address
    us["addr"] = [
        E("a10", "A", 30000, 10, [["d", "a"]]), E("a20", "A", 30000, 20, [["d", "a"]]), E("b05", "A", 30000, 5, [["d", "b"]]),
        E("b30", "A", 30000, 30, [["d", "b"]]), E("e15", "A", 30000, 15), E("o12", "B", 30000, 12, [["d", "a"]]),
        E("k12", "A", 30001, 12, [["d", "a"]]), E("r08", "A", 10000, 8), E("r25", "A", 10000, 25), E("s12", "A", 10001, 12),
        E("c20", "A", 30000, 20, [["d", "c"]], id_prefix="ff"), E("z20", "A", 30000, 20, [["d", "z"]], id_prefix="00"),   # other addresses, same second
    ]
    return us


def _mut(fn):
    def m(ev, uni):
        ev = dict(ev)
        fn(ev, uni)
        return ev
    return m


def _resign(ev, author):
    ev["id"] = C.compute_id(ev["pubkey"], ev["created_at"], ev["kind"], ev["tags"], ev["content"])
    ev["sig"] = C.sign_hex(author, ev["id"])


def _wrong_id(ev, uni):
    # correctly signed over the true hash, but the id field is another well-formed hex string
    ev["id"] = "%064x" % (int(ev["id"], 16) ^ 0xFFFF)


def _float_time(ev, uni):
    ev["created_at"] = float(ev["created_at"])
    _resign(ev, "A")


def _string_time(ev, uni):
    ev["created_at"] = str(ev["created_at"])
    _resign(ev, "A")


def _string_kind(ev, uni):
    ev["kind"] = str(ev["kind"])      # signed over the integer form, transmitted as a string


def _bool_kind(ev, uni):
    ev["kind"] = True
    _resign(ev, "A")


def _bad_delegation(ev, uni):
    ev["tags"] = [["delegation", C.pubkey("B"), "kind=1", "00" * 64]]
    _resign(ev, "A")


def _transplanted_delegation(ev, uni):
    ev["tags"] = [C.delegation_tag("B", "C")]     # B delegated to C, not to A
    _resign(ev, "A")


def _short_delegation(ev, uni):
    ev["tags"] = [["delegation", C.pubkey("B"), "kind=1"]]
    _resign(ev, "A")


def _upper_pubkey(ev, uni):
    ev["pubkey"] = ev["pubkey"].upper()         # hashed and signed in this spelling
    _resign(ev, "A")


def _blank_pubkey(ev, uni):
    ev["pubkey"] = ev["pubkey"][:32] + " " + ev["pubkey"][32:]
    _resign(ev, "A")


def _suffixed_pubkey(ch, lead=False):
    def m(ev, uni):
        ev["pubkey"] = (ch + ev["pubkey"]) if lead else (ev["pubkey"] + ch)     # hashed and signed in this spelling
        _resign(ev, "A")
    return m


def _two_delegations(first_bad):
    def m(ev, uni):
        good = C.delegation_tag("B", "A")
        bad = ["delegation", C.pubkey("C"), "kind=1", "00" * 64]
        ev["tags"] = [bad, good] if first_bad else [good, bad]
        _resign(ev, "A")
    return m


def universes_c03():
    us = {}
    forged = [
        E("ok", "A", 1, 10),
        E("okd", "A", 1, 11, [["delegation", "B"]]),
        E("f_content", "A", 1, 12, mutate=_mut(lambda ev, u: ev.__setitem__("content", ev["content"] + "!"))),
        E("f_time", "A", 1, 13, mutate=_mut(lambda ev, u: ev.__setitem__("created_at", ev["created_at"] + 1))),
        E("f_kind", "A", 1, 14, mutate=_mut(lambda ev, u: ev.__setitem__("kind", 2))),
        E("f_tags", "A", 1, 15, mutate=_mut(lambda ev, u: ev.__setitem__("tags", [["t", "x"]]))),
        E("f_pubkey", "A", 1, 16, mutate=_mut(lambda ev, u: ev.__setitem__("pubkey", C.pubkey("B")))),
        E("f_sig", "A", 1, 17, mutate=_forge_sig),
        E("f_sigother", "A", 1, 18, mutate=_mut(lambda ev, u: ev.__setitem__("sig", C.sign_hex("A", "11" * 32)))),
        E("f_id", "A", 1, 19, mutate=_mut(_wrong_id)),
        E("f_idupper", "A", 1, 20, mutate=_mut(lambda ev, u: ev.__setitem__("id", ev["id"].upper()))),
        E("f_idcontent", "A", 1, 21, mutate=_mut(lambda ev, u: (ev.__setitem__("content", "x"), _wrong_id(ev, u)))),
        E("f_floattime", "A", 1, 22, mutate=_mut(_float_time)),
        E("f_strtime", "A", 1, 23, mutate=_mut(_string_time)),
        E("f_boolkind", "A", 1, 25, mutate=_mut(_bool_kind)),
        E("f_deleg", "A", 1, 26, mutate=_mut(_bad_delegation)),
        E("f_delegother", "A", 1, 27, mutate=_mut(_transplanted_delegation)),
        E("f_delegshort", "A", 1, 28, mutate=_mut(_short_delegation)),
        # a genuine delegation tag must not vouch for anything but itself: event signature forged / content changed under
        # a valid delegation tag; a forged delegation tag before / after a genuine one
        E("fd_sig", "A", 1, 29, [["delegation", "B"]], mutate=_forge_sig),
        E("fd_content", "A", 1, 30, [["delegation", "B"]], mutate=_forge_content),
        E("fd_sigother", "A", 1, 31, [["delegation", "B"]], mutate=_mut(lambda ev, u: ev.__setitem__("sig", C.sign_hex("A", "11" * 32)))),
        E("fd_badfirst", "A", 1, 32, mutate=_mut(_two_delegations(True))),
        E("fd_badlast", "A", 1, 33, mutate=_mut(_two_delegations(False))),
        # other spellings of the right bytes: NIP-01 prescribes lowercase hex, bytes.fromhex() also reads upper case and
        # embedded blanks.  A relay that keeps bytes serves such an event in lowercase - another event than was signed
        E("f_pkupper", "A", 1, 34, mutate=_mut(_upper_pubkey)),
        E("f_sigupper", "A", 1, 35, mutate=_mut(lambda ev, u: ev.__setitem__("sig", ev["sig"].upper()))),
        E("f_sigblank", "A", 1, 36, mutate=_mut(lambda ev, u: ev.__setitem__("sig", ev["sig"][:64] + " " + ev["sig"][64:]))),
        E("f_pkblank", "A", 1, 37, mutate=_mut(_blank_pubkey)),
        # ... and a line feed / carriage return / tab at the end (what a `$` in a pattern lets through, what fromhex() skips)
        E("f_pknl", "A", 1, 38, mutate=_mut(_suffixed_pubkey("\n"))), E("f_pkcr", "A", 1, 39, mutate=_mut(_suffixed_pubkey("\r"))),
        E("f_pklead", "A", 1, 40, mutate=_mut(_suffixed_pubkey("\t", lead=True))),
        E("f_signl", "A", 1, 41, mutate=_mut(lambda ev, u: ev.__setitem__("sig", ev["sig"] + "\n"))),
        E("f_idnl", "A", 1, 42, mutate=_mut(lambda ev, u: ev.__setitem__("id", ev["id"] + "\n"))),
    ]
    us["forged"] = forged
    # twins: the same event once authentic and once with a wrong signature (same id).  A relay that remembers what it
    # has verified must not accept the forged twin after the authentic one was deleted, replaced or (ephemeral) never stored
    us["twins"] = [
        E("a", "A", 1, 10), E("a_bad", "A", 1, 10, mutate=_forge_sig, twin_of="a"),
        E("da", "A", 5, 20, [["e", "a"]]),
        E("x", "A", 20000, 10), E("x_bad", "A", 20000, 10, mutate=_forge_sig, twin_of="x"),
        E("r1", "A", 10000, 10), E("r1_bad", "A", 10000, 10, mutate=_forge_sig, twin_of="r1"), E("r2", "A", 10000, 20),
    ]
    # verbatim: authentic events in representations a relay may be tempted to normalise (bare and empty tag values, extra
    # items, whitespace, letter case, digit strings, composed / decomposed characters, empty content).  Whatever is stored,
    # announced or served for them must be the event that was signed: anything else no longer hashes to its id.
    us["verbatim"] = [
        E("pb", "A", 30000, 10, [["d"]]), E("pb2", "A", 30001, 11, [["t", "y"], ["d"]]), E("pe", "A", 30002, 12, [["d", ""]]),
        E("pn", "A", 30003, 12), E("tb", "A", 1, 13, [["t"], ["e"], ["p"]]), E("te", "A", 1, 14, [["t", ""], ["x", "", ""]]),
        E("tl", "A", 1, 15, [["e", "pn", "wss://r", "root", "more"], ["p", "B", ""]]),
        E("ts", "B", 1, 16, [["t", "sp"], ["t", "up"], ["t", "a"], ["t", "a"]]),
        E("tn", "B", 1, 17, [["t", "num"], ["t", "nfc"], ["t", "nfd"]]),
        E("c0", "B", 1, 18, content=""), E("cs", "B", 1, 19, content="  lead and trail \n"), E("r0", "B", 10000, 20, [["d"]]),
        E("m0", "B", 0, 21, content="{\"name\": \"x\" }"),
    ]
    # internal service events (kind 31494, signed by the relay's own key S inside add_service_event): role assignments and
    # identities as the LMDB backend keeps them, versions of one address, an empty content, hostile strings in tags and content
    us["service"] = [
        E("sv1", "S", 31494, 10, [["t", "auth"], ["d", "auth:A"], ["p", "A"]], content="w"),
        E("sv2", "S", 31494, 20, [["t", "auth"], ["d", "auth:A"], ["p", "A"]], content="r"),
        E("sv3", "S", 31494, 15, [["d", "nip05:B"], ["t", "nip05"], ["p", "B"], ["n", "bob"], ["r", "wss://r"]], content="pkB"),
        E("sv4", "S", 31494, 30, [["t", "auth"], ["d", "auth:C"], ["p", "C"]], content=""),
        E("sv5", "S", 31494, 40, [["d", "quo"], ["t", "quo"]], content="quo"),
        E("n1", "A", 1, 5),
    ]
    return us


def _forge_content(ev, uni):
    ev = dict(ev)
    ev["content"] = ev["content"] + "!"
    return ev


def _forge_sig(ev, uni):
    ev = dict(ev)
    ev["sig"] = ev["sig"][:-2] + ("00" if ev["sig"][-2:] != "00" else "01")
    return ev


def universes_c04():
    """events whose contents, tag values and tag items stress serialisers (relayfam's hostile variants) plus the
    representations of the 'verbatim' universe, each under one palette: what a look-up by id serves must be the accepted event"""
    from . import relayfam

    # (z0: an event dated 1970-01-01T00:00:00Z - a relay may refuse it, but what it accepts it must serve with that very timestamp)
    base = [d for d in relayfam.relay_universe() if "mutate" not in d] + relayfam.weird_events() + [E("z0", "A", 1, -C.T0, [["t", "a"]], dub=True)]
    verb = [dict(d, sym="v_" + d["sym"], tags=[[("v_" + x if x == "pn" else x) for x in t] for t in d["tags"]])
            for d in universes_c03()["verbatim"]]
    us = {}
    for pal in ("quotes", "nul", "unicode", "bslash", "plain"):
        us["h_" + pal] = base + verb
        PALETTE_OF["h_" + pal] = pal
        st = dict(relayfam.WEIRD_SYMTAB)
        st.update(SYMTABS["verbatim"])
        SYMTABS["h_" + pal] = st
    return us


PALETTE_OF = {}

SYMTABS = {"ack": {"nothex": "this-is-not-an-event-id", "big": "x" * 600, "huge": 2 ** 70}, "service": {"quo": "a'\"\\b\u00e4\n", "pkB": C.pubkey("B"), "bob": "bob@example.com"}, "dunicode": {"uml": "\u00e4", "umlx": "\u00e4x"},
           "delnone": {"acoord": "30000:%s:x" % C.pubkey("A"), "bcoord": "30000:%s:x" % C.pubkey("B")},
           "verbatim": {"sp": " a ", "up": "ABCDEF", "num": "007", "nfc": "\u00e9", "nfd": "e\u0301"},
           "gcdigits": {"v999": "999", "vbig": "17000000150", "vz14": "01700000014", "vi14": 1700000014, "vneg": "0abc", "viso": "2030-01-01T00:00:00Z", "vexp": "1e12", "vfrac": "1700000000.5"}}

UNIVERSES = {"C04": universes_c04, "C03": universes_c03, "C06": universes_c06, "C08": universes_c08, "C09": universes_c09, "C17": universes_c17}
GC_TIMES = {"C04": (), "C03": (), "C17": (15, 16), "C06": (), "C08": (), "C09": ()}


def final_probes(uni, prop):
    """probes appended to every script: every id through get_event, through GET /e/<id> and through a query by ids"""
    probes = []
    syms = list(uni.order)
    for s in syms:
        if uni.abs[s]["auth"]:
            probes.append(("get", s))
            probes.append(("http", s))
    probes.append(("query", [{"ids": [s for s in syms if uni.abs[s]["auth"]]}]))
    return probes


def with_lookups(script, uni):
    """look-ups interleaved with the behaviour: after every step, every event submitted so far is looked up by id through
    both paths (a look-up made before a removal must not influence the one made after it)"""
    out, seen = [], []
    for k, op in enumerate(script):
        out.append(op)
        if op[0] in ("submit", "service") and op[1] not in seen and uni.abs[op[1]]["auth"]:
            seen.append(op[1])
        if k < len(script) - 1 or True:
            for s in seen:
                out.append(("http", s))
                out.append(("get", s))
                out.append(("http", s, "upper"))      # the same id spelled with upper-case digits
                out.append(("get", s, "upper"))
    return tuple(out)


def nontrivial(prop, uni, tr):
    """did the trace exercise the antecedent of the property?"""
    ab = uni.abs
    if prop == "C09":
        for k, ln in enumerate(tr):
            if ln["a"] in ("Submit", "Writer") and k > 0:
                pre = _pre_store(tr, k)
                if pre is not None and pre - ln["post"]:
                    return True
        return False
    if prop == "C08":
        return any(ln["a"] == "Submit" and ab[ln["id"]]["kind"] == 5 and ln["ok"] for ln in tr)
    if prop == "C17":
        for k, ln in enumerate(tr):
            if ln["a"] == "Gc":
                pre = _pre_store(tr, k)
                if pre:
                    return True
        return False
    if prop == "C06":
        return sum(1 for ln in tr if ln["a"] == "Submit") >= 2
    if prop == "C03":
        return any(ln["a"] == "Submit" and not ab[ln["id"]]["auth"] for ln in tr)
    if prop == "C04":
        return any(ln["a"] == "Get" and ln.get("via") == "http" and ln["found"] for ln in tr)
    return True


def _pre_store(tr, k):
    for j in range(k - 1, -1, -1):
        if "post" in tr[j]:
            return tr[j]["post"]
    return set()


def _m_sql_expiration_text(a):
    """open finding C17/sql-expiration-compared-as-string, recognised exactly: the statement compares tags.value < '<now>' as
    text.  The violation is that finding iff every event the pass wrongly kept or wrongly removed was treated just as the text
    comparison of its expiration values treats it (removed iff some value sorts before the clock's decimal string)."""
    if a["backend"] != "sql" or a["formula"] != "C17_GcExact" or not a["offenders"]:
        return False
    uni = a["uni"]
    now = str(C.T0 + a["line"]["T"])
    post = set(a["line"]["post"])
    for sym in a["offenders"]:
        vals = [t[1] for t in uni.conc[sym]["tags"] if t and t[0] == "expiration" and len(t) > 1]
        if not vals or uni.abs[sym]["kind"] in range(20000, 30000):
            return False
        as_found_removed = any(str(v) < now for v in vals)
        if (sym not in post) != as_found_removed:
            return False
    return True


MATCHERS = {"C17": {"sql-expiration-compared-as-string": _m_sql_expiration_text}}


def run(prop, tier, seed, backends=BACKENDS, only_universe=None):
    import concurrent.futures

    out = Outcome(prop, tier, seed, "model_checking")
    for key, fn in MATCHERS.get(prop, {}).items():
        out.add_matcher(key, fn)
    rnd = random.Random(seed)
    design = tlc.DesignCheck([("MC_Store", "MC_Store_%s.cfg" % b, "Store/" + b) for b in backends], workers=3, timeout=1800)
    depth = {"quick": 3, "thorough": 4}[tier]
    depth_of = {"regc": {"quick": 4, "thorough": 5}[tier], "service": {"quick": 3, "thorough": 4}[tier]}
    cap_of = {"regc": {"quick": 1300, "thorough": 2000}[tier]}
    if prop in ("C03", "C04"):
        depth = {"quick": 1, "thorough": 2}[tier]     # every variant on its own (and pairs): the quantifier is over inputs
        depth_of = {"twins": {"quick": 3, "thorough": 4}[tier], "verbatim": 2, "service": {"quick": 3, "thorough": 4}[tier]}
    cap = {"quick": 1500 if prop == "C06" else 500, "thorough": 1500 if prop == "C17" else 6000}[tier]
    own = prop + "_"
    # phase 1: TLC generates behaviours of Store.tla per (universe, backend, writer mode)
    configs = []
    for uname, descs in UNIVERSES[prop]().items():
        if only_universe and uname != only_universe:
            continue
        uni = Universe(descs, palette=PALETTE_OF.get(uname, "plain"), symtab=SYMTABS.get(uname))
        for backend in backends:
            for drain_each in ([True] if backend == "sql" else [True, False]):
                d0 = depth_of.get(uname, depth)
                d = d0 if drain_each else d0 + 1
                if len(descs) > 9 and not drain_each:
                    d = d0
                configs.append({"uname": uname, "uni": uni, "backend": backend, "drain_each": drain_each, "depth": d})

    def _gen(cf):
        return gen.gen_store_scripts(cf["uni"], cf["backend"], cf["depth"], GC_TIMES[prop], drain_each=cf["drain_each"], workers=2)

    with concurrent.futures.ThreadPoolExecutor(max_workers=8) as ex:
        gens = list(ex.map(_gen, configs))
    for cf, (scripts, gstats) in zip(configs, gens):
        out.add_model(gstats)
        scripts = sorted(scripts)
        cf["generated"] = len(scripts)
        if len(scripts) > cap_of.get(cf["uname"], cap):
            rnd.shuffle(scripts)
            scripts = scripts[:cap_of.get(cf["uname"], cap)]
        probes = tuple(final_probes(cf["uni"], prop))
        cf["stimuli"] = scripts
        if cf["uname"] == "service":
            # events of the relay's own key are not submitted from outside: the relay is asked to build them itself
            scripts = [tuple(("service", op[1]) if op[0] == "submit" and cf["uni"].abs[op[1]]["pk"] == "S" else op for op in sc) for sc in scripts]
            cf["stimuli"] = scripts
        if prop == "C17":
            # every other script: the passes run while another client's stored query is being streamed
            scripts = [tuple((("gc", op[1], "busy") if op[0] == "gc" else op) for op in sc) if n % 2 else sc for n, sc in enumerate(scripts)]
            cf["stimuli"] = scripts
            cf["storage_options"] = {"_sql_file": True, "_keydump": True}
        cf["scripts"] = [with_lookups(sc, cf["uni"]) + probes for sc in scripts]
    # phase 2: run on the real storage classes
    all_traces = pool.run_many(configs, config={"service_privatekey": C.SECRETS["S"]})
    for cf, traces in zip(configs, all_traces):
        cf["traces"] = traces
    # phase 3: TLC validates every trace
    results = trace.validate_many(configs)
    distinct = set()
    samples = []
    other = {}
    for cf, (verdicts, vstats) in zip(configs, results):
        uni, backend, uname, traces = cf["uni"], cf["backend"], cf["uname"], cf["traces"]
        out.add_model(vstats)
        out.cov["evaluations"] += len(traces)
        out.cov["traces_validated_against_impl"] += len(traces)
        for k, tr in enumerate(traces):
            if nontrivial(prop, uni, tr):
                distinct.add((uname, backend, repr(cf["stimuli"][k])))
            if len(samples) < 3 and k % 97 == 5:
                samples.append({"universe": uname, "backend": backend, "script": list(cf["scripts"][k]),
                                "trace": [_pub(ln) for ln in tr]})
            bad = verdicts[k]
            # (C03: something stored, queued or announced that equals no submitted event in all seven fields cannot hash to its id)
            mine = [b for b in bad if b[0].startswith(own) or (prop == "C06" and b[0] in ("Conform", "Garbage")
                                                               and not _named_on_line(bad, b[1]))
                    or (prop in ("C03", "C04") and b[0] == "Garbage")]
            for b in bad:
                if b not in mine:
                    other[b[0]] = other.get(b[0], 0) + 1
            if mine:
                first = mine[0]
                ln = tr[first[1] - 1]
                attrs = {"backend": backend, "universe": uname, "formula": first[0], "formulas": sorted({b[0] for b in mine}),
                         "line": _pub(ln), "script": list(cf["scripts"][k]), "uni": uni, "trace": tr, "lineno": first[1], "offenders": first[2],
                         "drain_each": cf["drain_each"]}
                what = "%s on %s/%s: %s violated at line %d %s; script=%s" % (
                    prop, backend, uname, first[0], first[1], _pub(ln), list(cf["stimuli"][k]))
                out.violation(what, attrs, lambda p, uni=uni, tr=tr, bad=bad, backend=backend, uname=uname, sc=cf["scripts"][k]:
                              trace.dump_replay(p, {"property": prop, "backend": backend, "universe": uname,
                                                    "script": list(sc)}, uni, tr, bad))
    if prop == "C17":
        _index_entries(out, configs)
    design.join(out)
    out.cov["distinct_nontrivial"] = len(distinct)
    out.cov["rule"] = ("behaviours of Store.tla (Submit / Writer / Gc) enumerated by TLC to depth %d over %d hand-made universes "
                       "(at most %d per universe x backend x writer mode, seeded sample beyond), run on DBStorage(SQLite) and "
                       "LMDBStorage(liblmdb); a case is a (universe, backend, script); non-trivial = the run exercised the "
                       "property's antecedent (%s)" % (depth, len(UNIVERSES[prop]()), cap, _RULE[prop]))
    out.cov["samples"] = samples or [{"note": "no sample selected"}]
    out.cov["exhaustive"] = all(cf["generated"] <= cap_of.get(cf["uname"], cap) for cf in configs)
    out.notes["behaviours_generated_per_config"] = {"%s/%s/%s" % (cf["uname"], cf["backend"], "seq" if cf["drain_each"] else "lag"):
                                                    cf["generated"] for cf in configs}
    out.notes["violations_of_other_properties_seen"] = other
    return out


def _index_entries(out, configs):
    """C17 '... together with all their index entries': the complete row / key dump taken after every step (SQL: events and tags
    rows; LMDB: every key) is judged by TLC against KvIndex.tla - an entry without its record after a pass is a violation"""
    from .. import tracedata
    from . import kvfam

    for cf in configs:
        kvtraces = [kvfam.to_kv_trace(tr) for tr in cf["traces"]]
        verdicts, vstats = tracedata.validate("KvIndex_Trace", kvfam.defs_for(cf["uni"], cf["backend"]), kvtraces, batch=150)
        out.add_model(vstats)
        for k, tr in enumerate(kvtraces):
            for b in verdicts[k]:
                if b[0] != "C17_EntryWithoutRecord":
                    continue
                ln = tr[b[1] - 1]["_line"]
                what = "C17 on %s/%s: index entries without their record (%s) after step %s of script %s: %s" % (
                    cf["backend"], cf["uname"], b[0], _pub(ln), list(cf["stimuli"][k]), b[2][:6])
                out.violation(what, {"backend": cf["backend"], "universe": cf["uname"], "formula": "C17_EntryWithoutRecord", "line": _pub(ln),
                                     "offenders": [], "uni": cf["uni"]}, None)
                break


_RULE = {
    "C04": "an accepted event was served by GET /e/<id>",
    "C03": "an event that is not authentic was submitted",
    "C09": "some step removed a stored event",
    "C08": "an accepted kind-5 event was applied",
    "C17": "a collection ran on a non-empty store",
    "C06": "at least two submissions",
}


def _named_on_line(bad, line):
    return any(b[1] == line and b[0] not in ("Conform", "Garbage") for b in bad)


def _pub(ln):
    return {k: (sorted(v) if isinstance(v, (set, frozenset)) else v) for k, v in ln.items() if not k.startswith("_") or k == "_reason"}
