"""
C10 (LMDB index coherence) and C07 (atomicity under engine errors and process kills): after every step of a
TLC-generated history the complete storage content is dumped and decoded into the abstract keys of KvIndex.tla;
TLC evaluates coherence on every dump and, for steps with an injected fault, that the dump is exactly the state
before the event or exactly the state after it (KvIndex_Trace.tla).
"""
import asyncio
import os
import random

from .. import common as C
from .. import gen, kvproj, pool, tlc, tracedata
from ..report import Outcome
from ..universe import Universe
from .storefam import E

SYMTAB = {"vlist": ["x", ["y", 1]], "vobj": {"k": ["v"]}, "uml": "ä", "vnul": "a\x00b", "i5": 5, "vlong": "x" * 600, "vsp": " a ", "vup": "A", "i1": 1, "f1": 1.0, "bT": True}


def kv_universe():
    return [
        E("t1", "A", 1, 10, [["t", "a"], ["t", "a"], ["t", "ab"], ["t", ""], ["t"], ["e", "zz"], ["long", "x"]]),
        E("t2", "B", 1, 20, [["@uml", "a"], ["t", "vnul"], ["p", "A"], ["t", "i5"], ["expiration", "t900"]]),
        E("r0", "A", 10000, 5),
        E("n0", "A", 1, 8),
        E("r1", "A", 10000, 10, [["t", "a"], ["t", "vsp"], ["t", "vup"]]),
        E("r2", "A", 10000, 20, [["t", "b"], ["e", "t1"]]),
        E("p1", "A", 30000, 10, [["d", "a"], ["t", "a"]]),
        E("p2", "A", 30000, 20, [["d", "a"]]),
        E("d1", "A", 5, 30, [["e", "t1"], ["e", "p2"], ["e", "n0"]]),
        E("g1", "B", 1, 5, [["expiration", "t14"], ["t", "a"]]),
        E("tl", "B", 1, 25, [["t", "a"], ["r", "vlong"], ["p", "A"], ["t", "ab"]]),     # one index key is too long for LMDB
        E("m0", "A", 0, 10, [["t", "a"]]),
        E("m1", "A", 0, 20, []),
        # tag values that are arrays / objects: they reach the index as Python lists on the way in and as msgpack tuples on the way out
        E("tv", "B", 1, 27, [["e", "vlist"], ["t", "a"], ["q", "vobj"]]),
        E("dv", "B", 5, 40, [["e", "tv"]]),
    ]


def kv_universe_equal_values():
    """a second, small universe (LMDB key space only): tag values that are equal to Python and different as JSON (1, 1.0, true) -
    each event is indexed under its own value's text - with a deletion of two of them and a replaceable pair"""
    return [
        E("ni", "A", 1, 41, [["t", "i1"]]), E("nf", "A", 1, 42, [["t", "f1"]]), E("nb", "B", 1, 43, [["t", "bT"]]),
        E("dn", "A", 5, 44, [["e", "ni"], ["e", "nf"]]),
        E("ri", "A", 10000, 45, [["t", "i1"]]), E("rf", "A", 10000, 46, [["t", "f1"]]), E("n0", "A", 1, 8),
    ]


def _keydump(backend, uni):
    async def dump(st):
        if backend == "lmdb":
            return kvproj.lmdb_abstract_keys(st, uni)
        return await kvproj.sql_abstract_keys(st, uni)
    return dump


def _worker(payload):
    from .. import storedrv as D

    key, backend, scripts = payload
    uni = pool._CTX[key]

    async def main():
        out = []
        for sc in scripts:
            with C.Scratch() as d:
                st = await D.open_storage(backend, d if backend == "lmdb" else None)
                try:
                    out.append(await D.run_script(st, backend, uni, sc, keydump=_keydump(backend, uni)))
                finally:
                    await D.close_storage(st)
        return out

    return asyncio.run(main())


def to_kv_trace(tr):
    out = []
    for ln in tr:
        if "_keys" in ln:
            out.append({"a": "Step", "keys": kvproj.tla_keys(ln["_keys"]), "_line": {k: v for k, v in ln.items() if k not in ("_keys",)}})
    return out


def defs_for(uni, backend):
    return {"TD_Universe": uni.tla_universe(), "TD_OneCharNames": set(uni.one_char_names()), "TD_Backend": backend}


def run(prop, tier, seed, backends=("lmdb",), **kw):
    if prop == "C07":
        from . import c07

        return c07.run(tier, seed)
    out = Outcome("C10", tier, seed, "model_checking")
    rnd = random.Random(seed)
    design = tlc.DesignCheck([("MC_KvIndex", "MC_KvIndex.cfg", "KvIndex")], workers=2, timeout=600)
    depth = {"quick": 3, "thorough": 4}[tier]
    cap = {"quick": 800, "thorough": 12000}[tier]
    distinct = set()
    samples = []
    for uni, drain_each in [(Universe(kv_universe(), symtab=SYMTAB), True), (Universe(kv_universe(), symtab=SYMTAB), False),
                            (Universe(kv_universe_equal_values(), symtab=SYMTAB), True), (Universe(kv_universe_equal_values(), symtab=SYMTAB), False)]:
        scripts, gstats = gen.gen_store_scripts(uni, "lmdb", depth if drain_each else depth + 1, (15,), drain_each=drain_each, workers=6)
        out.add_model(gstats)
        scripts = sorted(scripts)
        rnd.shuffle(scripts)
        scripts = scripts[:cap]
        payloads = [("kvuni", "lmdb", scripts[b:b + 20]) for b in range(0, len(scripts), 20)]
        results = pool.map_in_workers("harness.checks.kvfam", "_worker", payloads, shared={"kvuni": uni})
        traces = [tr for res in results for tr in res]
        kvtraces = [to_kv_trace(tr) for tr in traces]
        verdicts, vstats = tracedata.validate("KvIndex_Trace", defs_for(uni, "lmdb"), kvtraces, batch=150)
        out.add_model(vstats)
        for k, tr in enumerate(kvtraces):
            out.cov["evaluations"] += len(tr)
            out.cov["traces_validated_against_impl"] += 1
            sizes = [len(ln["keys"]) for ln in tr]
            if any(b < a for a, b in zip(sizes, sizes[1:])):
                distinct.add(repr(scripts[k]))
            if len(samples) < 2 and k % 101 == 7 and tr:
                samples.append({"script": list(scripts[k]), "last_dump": sorted(map(list, tr[-1]["keys"]), key=str)[:30]})
            for b in verdicts[k]:
                if not b[0].startswith("C10_"):
                    continue
                ln = tr[b[1] - 1]
                what = "C10 on lmdb: %s after step %s of script %s: %s" % (b[0], ln["_line"], list(scripts[k]), b[2][:6])
                out.violation(what, {"formula": b[0], "line": ln["_line"], "offenders": b[2]},
                              lambda p, tr=tr, sc=scripts[k], b=b: _dump(p, sc, tr, b))
                break
    design.join(out)
    out.cov["distinct_nontrivial"] = len(distinct)
    out.cov["rule"] = ("behaviours of Store.tla (Submit / Writer / Gc at T0+15) generated by TLC to depth %d over a universe with "
                       "duplicate tags, empty / NUL / integer / 600-byte values, a multi-byte tag name, bare and non-indexable tags, "
                       "replaceable versions, a deletion and an expiring event, run on LMDBStorage with and without writer lag; after "
                       "every step every key of the environment is decoded and compared with the image of the stored records; "
                       "evaluations = dumps judged; a case is a script; non-trivial = some step removed keys" % depth)
    out.cov["samples"] = samples or [{"note": "none"}]
    return out


def _dump(path, sc, tr, b):
    import json

    os.makedirs(os.path.dirname(path), exist_ok=True)
    with open(path, "w") as fp:
        json.dump({"meta": {"property": "C10", "script": list(sc)}, "verdict": b,
                   "dumps": [{"line": ln["_line"], "keys": sorted(map(list, ln["keys"]), key=str)} for ln in tr]}, fp, indent=1, default=str)
