"""
C20: cross-worker notification.  TLC model-checks Notifier.tla (every chunking of every stream, one peer drop) for the
read primitive the repository uses, and simulates behaviours whose environment actions (announce, deliver n symbols
up/down, drop) drive the real NotifyServer.handle_notify / NotifyClient.connect over hand-fed asyncio streams; what each
worker looks up and pushes is recorded and judged by TLC against the C20 formulas (Notifier_Trace.tla).
"""
import asyncio
import random

from .. import common as C
from .. import tlc, tracedata
from ..report import Outcome

GEN_EXTRA = r"""
VARIABLE hist
H(r) == hist' = Append(hist, r)
GenInit == Init /\ hist = <<>>
GenNext ==
    \/ \E w \in Workers_def : Announce(w) /\ H(<<"announce", w, 0>>)
    \/ \E w \in Workers_def : PeerDrop(w) /\ H(<<"drop", w, 0>>)
    \/ \E w \in Workers_def : Join(w) /\ H(<<"join", w, 0>>)
    \/ \E w \in Workers_def, n \in 1..(K_def * 3) : DeliverUp(w, n) /\ H(<<"up", w, n>>)
    \/ \E w \in Workers_def, n \in 1..(K_def * 3) : DeliverDown(w, n) /\ H(<<"down", w, n>>)
    \/ \E w \in Workers_def : (ServerRelay(w) \/ ClientLookup(w)) /\ UNCHANGED hist
GenSpec == GenInit /\ [][GenNext]_<<vars, hist>>
GenDone == (\A w \in Workers_def : todo[w] = <<>>) /\ Drained
GenEmit == ~GenDone \/ PrintT("@@" \o ToJson(hist))
GenBound == Cardinality(Workers_def \ alive) <= 1 /\ joins <= 1 /\ Len(hist) <= GenDepth
"""

CONFIGS = {
    # name: (workers, ids per worker, K)
    "w3k2": ([1, 2, 3], {1: ["a", "b"], 2: ["c"], 3: []}, 2),
    "w2k4": ([1, 2], {1: ["a", "b"], 2: ["c", "d"]}, 4),
    "w3k3": ([1, 2, 3], {1: ["a"], 2: ["b"], 3: ["c"]}, 3),
}


def gen_behaviours(workers, idsof, K, num, seed, depth=40, timeout=600):
    consts = {"Workers": set(workers), "IdsOf": {w: list(v) for w, v in idsof.items()}, "K": K, "Exact": True}
    text = tlc.mc_module("MCN", "Notifier", ["todo", "upnet", "upbuf", "dnnet", "dnbuf", "alive", "looked", "owed", "joins"], consts,
                         extends=("Integers", "Sequences", "FiniteSets", "TLC", "Json"), extra="GenDepth == %d\n" % depth + GEN_EXTRA)
    with tlc.Workdir(prefix="ngen-") as wd:
        wd.write("MCN.tla", text)
        cfg = wd.write("MCN.cfg", "SPECIFICATION GenSpec\nINVARIANT GenEmit\nCONSTRAINT GenBound\nCHECK_DEADLOCK FALSE\n")
        res = tlc.run_tlc(wd, "MCN", cfg, workers=4, timeout=timeout, simulate="num=%d" % num, depth=depth + 10, seed=seed)
    hs = {}
    for h in tlc.printed_json(res["out"]):
        hs.setdefault(tuple(tuple(x) for x in h), None)
    if not hs:
        raise tlc.TlcError("notifier behaviour generation produced nothing: " + tlc.tlc_failed_how(res["out"]))
    return list(hs), tlc.parse_stats(res["out"])


def symbol_bytes(K):
    """byte length of each of the K symbols of a 32-byte id"""
    base = 32 // K
    sizes = [base] * K
    for k in range(32 - base * K):
        sizes[k] += 1
    return sizes


class FakeWriter:
    def __init__(self, sink, peer):
        self.sink = sink
        self.peer = peer
        self.closed = False

    def write(self, data):
        self.sink(bytes(data))

    async def drain(self):
        return None

    def get_extra_info(self, name, default=None):
        return self.peer

    def close(self):
        self.closed = True

    def is_closing(self):
        return self.closed

    async def wait_closed(self):
        return None


class StubEvent:
    def __init__(self, idb):
        self.id_bytes = idb
        self.id = idb.hex()


class StubStorage:
    def __init__(self, w, log, known):
        self.w = w
        self.log = log
        self.known = known

    async def get_event(self, hexid):
        self.log.append(("Lookup", self.w, hexid))
        if hexid in self.known:
            return StubEvent(bytes.fromhex(hexid))
        return None

    async def notify_all_connected(self, event):
        self.log.append(("Push", self.w, event.id))


async def run_behaviour(workers, idsof, K, behaviour, jitter=None):
    """drive the real notifier code along one behaviour; returns the trace (abstract lines)"""
    from nostr_relay import notifier

    sizes = symbol_bytes(K)
    idbytes = {}
    for w in workers:
        for i in idsof[w]:
            idbytes[i] = bytes([ord(i[0])]) * 32 if len(i) == 1 else None
    # distinct recognisable 32-byte ids
    for n, i in enumerate(sorted(idbytes)):
        idbytes[i] = bytes((n * 37 + k * 7 + 1) % 256 for k in range(32))
    known = {b.hex() for b in idbytes.values()}
    sym_of = {}
    for i, b in idbytes.items():
        off = 0
        for k, sz in enumerate(sizes):
            sym_of[(b[off:off + sz], off)] = [i, k + 1]
            off += sz
    log = []
    wire_up = {w: bytearray() for w in workers}
    wire_down = {w: bytearray() for w in workers}
    reader_s = {w: asyncio.StreamReader() for w in workers}
    reader_c = {w: asyncio.StreamReader() for w in workers}
    server = notifier.NotifyServer(port=7000)
    server.log = _Quiet()
    clients = {}
    tasks = []
    orig_open = asyncio.open_connection
    orig_sleep = asyncio.sleep

    async def fake_open(address, port, *a, **k):
        w = port - 7000
        return reader_c[w], FakeWriter(wire_up[w].extend, ("client", w))

    async def fast_sleep(delay, *a, **k):
        return await orig_sleep(0 if delay == 2 else delay)

    asyncio.open_connection = fake_open
    asyncio.sleep = fast_sleep
    try:
        for w in workers:
            tasks.append(asyncio.create_task(server.handle_notify(reader_s[w], FakeWriter(wire_down[w].extend, ("peer", w)))))
            cl = notifier.NotifyClient(StubStorage(w, log, known), port=7000 + w)
            cl.log = _Quiet()
            clients[w] = cl
            tasks.append(asyncio.create_task(cl.connect()))

        async def settle():
            for _ in range(30):
                await orig_sleep(0)

        await settle()
        todo = {w: list(idsof[w]) for w in workers}
        trace = []
        alive = set(workers)

        def flush_log():
            for kind, w, hexid in log:
                if kind == "Lookup":
                    trace.append({"a": "Lookup", "w": w, "chunk": chunk_symbols(bytes.fromhex(hexid), idbytes, sizes)})
                else:
                    trace.append({"a": "Push", "w": w, "i": next((i for i, b in idbytes.items() if b.hex() == hexid), "?")})
            del log[:]

        for step in behaviour:
            kind, w, n = step
            if kind == "announce":
                if w in alive and todo[w]:
                    i = todo[w].pop(0)
                    await clients[w].notify(StubEvent(idbytes[i]))
                    trace.append({"a": "Announce", "w": w, "i": i})
            elif kind in ("up", "down"):
                wire = wire_up[w] if kind == "up" else wire_down[w]
                rd = reader_s[w] if kind == "up" else reader_c[w]
                if w in alive and wire:
                    nbytes = nbytes_for(n, sizes, jitter)
                    chunk = bytes(wire[:nbytes])
                    del wire[:nbytes]
                    rd.feed_data(chunk)
            elif kind == "drop":
                if w in alive:
                    alive.discard(w)
                    reader_s[w].feed_eof()
                    reader_c[w].feed_eof()
                    wire_up[w].clear()
                    wire_down[w].clear()
                    trace.append({"a": "Drop", "w": w})
            elif kind == "join":
                if w not in alive:
                    # a new connection of worker w: fresh streams, a new server-side handler and a new client object
                    await settle()
                    reader_s[w] = asyncio.StreamReader()
                    reader_c[w] = asyncio.StreamReader()
                    wire_up[w].clear()
                    wire_down[w].clear()
                    tasks.append(asyncio.create_task(server.handle_notify(reader_s[w], FakeWriter(wire_down[w].extend, ("peer", w)))))
                    cl = notifier.NotifyClient(StubStorage(w, log, known), port=7000 + w)
                    cl.log = _Quiet()
                    clients[w] = cl
                    tasks.append(asyncio.create_task(cl.connect()))
                    alive.add(w)
                    await settle()
                    trace.append({"a": "Join", "w": w})
            await settle()
            flush_log()
        # deliver whatever is still in flight (coalesced), then the run is over
        for _ in range(6):
            for w in workers:
                if w in alive:
                    for wire, rd in ((wire_up[w], reader_s[w]), (wire_down[w], reader_c[w])):
                        if wire:
                            rd.feed_data(bytes(wire))
                            wire.clear()
            await settle()
            flush_log()
        trace.append({"a": "End"})
        for t in tasks:
            t.cancel()
        await asyncio.gather(*tasks, return_exceptions=True)
        return trace
    finally:
        asyncio.open_connection = orig_open
        asyncio.sleep = orig_sleep


def nbytes_for(nsym, sizes, jitter):
    total = 0
    for k in range(nsym):
        total += sizes[k % len(sizes)]
    if jitter is not None:
        total = max(1, total + jitter.choice([-3, -1, 0, 0, 1, 2]))
    return total


def chunk_symbols(data, idbytes, sizes):
    """project the bytes a worker looked up onto symbols: <<id, k>> for aligned symbols of a known id, else a garbage symbol"""
    for i, b in idbytes.items():
        if data == b:
            return [[i, k + 1] for k in range(len(sizes))]
    return [["?" + data.hex()[:10], len(data)]]


class _Quiet:
    def __getattr__(self, name):
        return lambda *a, **k: None


def _worker(payload):
    workers, idsof, K, behaviours, jseed = payload
    idsof = {int(k): v for k, v in idsof.items()}

    async def main():
        out = []
        rnd = random.Random(jseed) if jseed is not None else None
        for b in behaviours:
            out.append(await run_behaviour(workers, idsof, K, b, jitter=rnd))
        return out

    return asyncio.run(main())


def _e2e_worker(payload):
    """
    two real DBStorage instances on one SQLite file (two worker processes sharing a database), each with its real
    NotifyClient, joined by the real NotifyServer.handle_notify over in-memory streams with chunked delivery; a
    subscriber on worker 2 must be pushed what worker 1 accepts (and vice versa), once, and nobody gets an echo
    """
    chunkings, seed = payload
    from nostr_relay import notifier, web
    from nostr_relay.rate_limiter import NullRateLimiter
    from .. import storedrv as D
    from ..universe import Universe
    from .storefam import E
    import falcon
    import json as _json

    uni = Universe([E("a", "A", 1, 10, [["t", "x"]]), E("b", "A", 1, 20, [["t", "x"]]), E("c", "B", 1, 30, [["t", "x"]])])
    K = 4
    sizes = symbol_bytes(K)

    async def one(chunks, eager=False, republish=False):
        # eager: the transport is fast and the database is slow - bytes are delivered as soon as they are written, while the
        # sender's add_event is still running, and every COMMIT takes a tenth of a second.  An id must not reach the other
        # workers before they can see the event.
        with C.Scratch() as d:
            wire_up = {1: bytearray(), 2: bytearray()}
            wire_down = {1: bytearray(), 2: bytearray()}
            reader_s = {w: asyncio.StreamReader() for w in (1, 2)}
            reader_c = {w: asyncio.StreamReader() for w in (1, 2)}
            order = []
            orig_open, orig_sleep = asyncio.open_connection, asyncio.sleep

            async def fake_open(address, port, *a, **k):
                w = len(order) + 1
                order.append(w)
                return reader_c[w], FakeWriter(wire_up[w].extend, ("client", w))

            async def fast_sleep(delay, *a, **k):
                return await orig_sleep(0 if delay == 2 else delay)

            asyncio.open_connection = fake_open
            asyncio.sleep = fast_sleep
            log = []
            restore = []
            try:
                sts = {}
                for w in (1, 2):
                    sts[w] = await D.open_storage("sql", d, num_concurrent_adds=1)
                    await orig_sleep(0.01)
                pump_task = None
                if eager:
                    import aiosqlite as _aiosqlite

                    # (every COMMIT of the driver's connections takes a tenth of a second; the loop keeps running meanwhile)
                    orig_commit = _aiosqlite.Connection.commit

                    async def slow_commit(self_):
                        await orig_sleep(0.1)
                        return await orig_commit(self_)

                    _aiosqlite.Connection.commit = slow_commit
                    restore.append(lambda: setattr(_aiosqlite.Connection, "commit", orig_commit))

                    async def pump():
                        while True:
                            for wire, rd in ((wire_up, reader_s), (wire_down, reader_c)):
                                for x in (1, 2):
                                    if wire[x]:
                                        rd[x].feed_data(bytes(wire[x]))
                                        wire[x].clear()
                            await orig_sleep(0.001)
                    pump_task = asyncio.create_task(pump())
                server = notifier.NotifyServer()
                server.log = _Quiet()
                tasks = [asyncio.create_task(server.handle_notify(reader_s[w], FakeWriter(wire_down[w].extend, ("peer", w)))) for w in (1, 2)]
                for w in (1, 2):
                    orig_get = sts[w].get_event

                    async def get_event(hexid, w=w, orig_get=orig_get):
                        log.append(("Lookup", w, hexid))
                        return await orig_get(hexid)

                    sts[w].get_event = get_event
                frames = {1: [], 2: []}
                inbox = {w: asyncio.Queue() for w in (1, 2)}

                def mk(w):
                    async def recv():
                        x = await inbox[w].get()
                        if x is None:
                            raise falcon.WebSocketDisconnected()
                        return x

                    async def send(text):
                        frames[w].append(text)
                        m = _json.loads(text)
                        if m[0] == "EVENT":
                            log.append(("Push", w, m[2]["id"]))

                    async def close(code=1000):
                        pass
                    return recv, send, close

                handlers = []
                for w in (1, 2):
                    r, sn, cl = mk(w)
                    handlers.append(asyncio.create_task(web.start_client(sts[w], sn, r, cl, _Quiet(), rate_limiter=NullRateLimiter(), remote_addr="10.0.0.%d" % w)))
                    inbox[w].put_nowait(_json.dumps(["REQ", "live", {"kinds": [1]}]))

                async def settle(n=60):
                    for _ in range(n):
                        await orig_sleep(0.001)

                await settle()
                trace = []

                seen_n = {}

                def flush():
                    idsym = {uni.conc[s]["id"]: s for s in uni.order}
                    for kind, w, hexid in log:
                        # (an event that was removed and is accepted again is announced again: its second look-up / push on a
                        #  worker is the symbol with suffix 2, as in the plan)
                        n = seen_n[(kind, w, hexid)] = seen_n.get((kind, w, hexid), 0) + 1
                        sym = idsym.get(hexid)
                        if sym is not None and n > 1 and republish:
                            sym = "%s%d" % (sym, n)
                        if kind == "Lookup":
                            trace.append({"a": "Lookup", "w": w, "chunk": [[sym, k + 1] for k in range(K)] if sym is not None
                                          else [["?" + hexid[:10], len(hexid) // 2]]})
                        else:
                            trace.append({"a": "Push", "w": w, "i": sym or "?"})
                    del log[:]

                # republish: `a` is accepted, removed from the shared database (delete_event: a deletion, an expiry) and accepted
                # again by the same worker - a second acceptance is a second announcement
                plan = [(1, "a"), ("del", "a"), (1, "a"), (2, "c")] if republish else [(1, "a"), (1, "b"), (2, "c")]
                ci = 0
                times = {}
                for w, sym in plan:
                    if w == "del":
                        await sts[1].delete_event(uni.conc[sym]["id"])
                        await settle(10)
                        continue
                    await sts[w].add_event(D._clone(uni.conc[sym]))
                    times[sym] = times.get(sym, 0) + 1
                    trace.append({"a": "Announce", "w": w, "i": sym if times[sym] == 1 else "%s%d" % (sym, times[sym])})
                    await settle(10)
                    # deliver what is in flight in the chosen chunk sizes, up then down
                    for wire, rd in ((wire_up, reader_s), (wire_down, reader_c)):
                        for x in (1, 2):
                            while wire[x]:
                                n = chunks[ci % len(chunks)]
                                ci += 1
                                rd[x].feed_data(bytes(wire[x][:n]))
                                del wire[x][:n]
                                await settle(6)
                    await settle(30)
                    flush()
                # whatever was written late is delivered too (coalesced) before the run is judged
                for _ in range(5):
                    for wire, rd in ((wire_up, reader_s), (wire_down, reader_c)):
                        for x in (1, 2):
                            if wire[x]:
                                rd[x].feed_data(bytes(wire[x]))
                                wire[x].clear()
                    await settle(40)
                    flush()
                # the local pushes (an event accepted by worker w is pushed to w's own subscriber by w itself) are not the
                # notifier's: keep only pushes on the *other* worker
                trace = [ln for ln in trace if not (ln["a"] == "Push" and ln["i"].rstrip("2") in [s for ww, s in plan if ww == ln["w"]])]
                trace.append({"a": "End"})
                for w in (1, 2):
                    inbox[w].put_nowait(None)
                await settle(20)
                for t in tasks + handlers + ([pump_task] if pump_task else []):
                    t.cancel()
                await asyncio.gather(*tasks, *handlers, return_exceptions=True)
                for w in (1, 2):
                    if sts[w].notifier and sts[w].notifier._task:
                        sts[w].notifier._task.cancel()
                    await D.close_storage(sts[w])
                return trace
            finally:
                asyncio.open_connection = orig_open
                asyncio.sleep = orig_sleep
                for fn in restore:
                    fn()

    async def main():
        return [await one(c) for c in chunkings] + [await one(c, eager=True) for c in chunkings[:1]] \
            + [await one(c, republish=True) for c in chunkings[:1]]

    return asyncio.run(main())


def _startup_worker(payload):
    """
    The start-up window of a worker, over real loopback TCP (the repository's NotifyServer on its port 6000 and the workers' own
    NotifyClient objects, nothing hand-fed): worker 2 is up and connected; worker 1 has just been set up - its notifier connects
    two seconds later - and accepts event `a` at once; then its connect happens; then `b` (worker 1) and `c` (worker 2) follow.
    Returns the trace, or None when the port is not available.
    """
    from nostr_relay import notifier, web
    from nostr_relay.rate_limiter import NullRateLimiter
    from .. import storedrv as D
    from ..universe import Universe
    from .storefam import E
    import falcon
    import json as _json
    import socket

    uni = Universe([E("a", "A", 1, 10, [["t", "x"]]), E("b", "A", 1, 20, [["t", "x"]]), E("c", "B", 1, 30, [["t", "x"]])])
    K = 4
    probe = socket.socket()
    probe.setsockopt(socket.SOL_SOCKET, socket.SO_REUSEADDR, 1)
    try:
        probe.bind(("127.0.0.1", 6000))
    except OSError:
        return None
    finally:
        probe.close()

    async def main():
        with C.Scratch() as d:
            real_sleep = asyncio.sleep
            gate = asyncio.Event()
            gated = []

            async def sleep(delay, *a, **k):
                # the notifier's connect delay: immediate for the worker that is already up, held for the one that is starting
                if delay == 2:
                    if gated:
                        await gate.wait()
                    return await real_sleep(0)
                return await real_sleep(delay, *a, **k)

            import types

            notifier.asyncio = types.SimpleNamespace(**{k: getattr(asyncio, k) for k in dir(asyncio) if not k.startswith("__")})
            notifier.asyncio.sleep = sleep
            log = []
            sts = {}
            handlers = []
            server = notifier.NotifyServer()
            server.log = _Quiet()
            server.start()
            await real_sleep(0.1)
            try:
                inbox = {w: asyncio.Queue() for w in (1, 2)}

                def mk(w):
                    async def recv():
                        x = await inbox[w].get()
                        if x is None:
                            raise falcon.WebSocketDisconnected()
                        return x

                    async def send(text):
                        m = _json.loads(text)
                        if m[0] == "EVENT":
                            log.append(("Push", w, m[2]["id"]))

                    async def close(code=1000):
                        pass
                    return recv, send, close

                for w in (2, 1):
                    if w == 1:
                        gated.append(1)         # from now on a connect delay is held until the gate opens
                    sts[w] = await D.open_storage("sql", d, num_concurrent_adds=1)
                    orig_get = sts[w].get_event

                    async def get_event(hexid, w=w, orig_get=orig_get):
                        log.append(("Lookup", w, hexid))
                        return await orig_get(hexid)

                    sts[w].get_event = get_event
                    r, sn, cl = mk(w)
                    handlers.append(asyncio.create_task(web.start_client(sts[w], sn, r, cl, _Quiet(), rate_limiter=NullRateLimiter(),
                                                                         remote_addr="10.0.0.%d" % w)))
                    inbox[w].put_nowait(_json.dumps(["REQ", "live", {"kinds": [1]}]))
                    await real_sleep(0.15)
                trace = []
                idsym = {uni.conc[s_]["id"]: s_ for s_ in uni.order}

                def flush():
                    for kind, w, hexid in log:
                        if kind == "Lookup":
                            trace.append({"a": "Lookup", "w": w, "chunk": [[idsym[hexid], k + 1] for k in range(K)] if hexid in idsym
                                          else [["?" + hexid[:10], len(hexid) // 2]]})
                        else:
                            trace.append({"a": "Push", "w": w, "i": idsym.get(hexid, "?")})
                    del log[:]

                plan = [(1, "a", True), (1, "b", False), (2, "c", False)]
                for w, sym, early in plan:
                    if not early and not gate.is_set():
                        gate.set()                      # worker 1's delayed connect happens now
                        await real_sleep(0.3)
                    await sts[w].add_event(D._clone(uni.conc[sym]))
                    trace.append({"a": "Announce", "w": w, "i": sym})
                    await real_sleep(0.3)
                    flush()
                await real_sleep(0.3)
                flush()
                trace = [ln for ln in trace if not (ln["a"] == "Push" and ln["i"] in [s_ for ww, s_, _ in plan if ww == ln["w"]]
                                                    and not any(x["a"] == "Lookup" and x["w"] == ln["w"] and x["chunk"][0][0] == ln["i"] for x in trace))]
                trace.append({"a": "End"})
                os.write(wfd, _json.dumps(trace).encode())
                os._exit(0)
            finally:
                notifier.asyncio = asyncio
                for w in inbox:
                    inbox[w].put_nowait(None)
                await real_sleep(0.05)
                for t in handlers:
                    t.cancel()
                await asyncio.gather(*handlers, return_exceptions=True)
                for w in sts:
                    if sts[w].notifier and sts[w].notifier._task:
                        sts[w].notifier._task.cancel()
                    await D.close_storage(sts[w])
                # (Python 3.12: Server.wait_closed() waits for every connection; do not wait for that longer than a moment)
                for wr in list(server.connections.values()):
                    try:
                        wr.close()
                    except Exception:
                        pass
                if server._task:
                    server._task.cancel()
                    try:
                        await asyncio.wait_for(asyncio.gather(server._task, return_exceptions=True), 2)
                    except Exception:
                        pass

    # The scenario runs in a forked child that reports its trace and leaves with os._exit: on Python 3.12 tearing down a
    # server whose connections were cancelled (Server.wait_closed) can hang, and nothing after the trace is of interest.
    import os
    import select

    r, wfd = os.pipe()
    pid = os.fork()
    if pid == 0:
        code = 0
        try:
            os.close(r)
            tr = asyncio.run(main())
            os.write(wfd, _json.dumps(tr).encode())
        except BaseException as e:      # noqa: B902
            os.write(wfd, _json.dumps({"error": "%s: %s" % (type(e).__name__, e)}).encode())
            code = 1
        finally:
            os._exit(code)
    os.close(wfd)
    data = b""
    deadline = 90.0
    import time as _time

    t0 = _time.time()
    while _time.time() - t0 < deadline:
        ready, _, _ = select.select([r], [], [], 1.0)
        if ready:
            chunk = os.read(r, 65536)
            if not chunk:
                break
            data += chunk
    os.close(r)
    try:
        os.kill(pid, 9)
    except ProcessLookupError:
        pass
    os.waitpid(pid, 0)
    got = _json.loads(data.decode()) if data else None
    if not isinstance(got, list):
        raise RuntimeError("the start-up scenario failed to run: %r" % (got,))
    return got


def run(prop, tier, seed, **kw):
    from .. import pool

    out = Outcome("C20", tier, seed, "model_checking")
    design = tlc.DesignCheck([("MC_Notifier", "MC_Notifier_exact.cfg", "Notifier/readexactly")], workers=4, timeout=900)
    num = {"quick": 150, "thorough": 3000}[tier]
    samples = []
    distinct = set()
    for name, (workers, idsof, K) in CONFIGS.items():
        behaviours, gstats = gen_behaviours(workers, idsof, K, num, seed)
        out.add_model(gstats)
        behaviours = sorted(behaviours)
        cap = {"quick": 400, "thorough": 6000}[tier]
        random.Random(seed).shuffle(behaviours)
        behaviours = behaviours[:cap]
        payloads = []
        for jit in (None, seed + 1):
            for b in range(0, len(behaviours), 25):
                payloads.append((workers, {str(k): v for k, v in idsof.items()}, K, behaviours[b:b + 25], jit))
        results = pool.map_in_workers("harness.checks.c20", "_worker", payloads)
        traces = [tr for res in results for tr in res]
        stimuli = [b for p in payloads for b in p[3]]
        defs = {"TD_Workers": set(workers), "TD_IdsOf": {w: list(v) for w, v in idsof.items()}, "TD_K": K}
        verdicts, vstats = tracedata.validate("Notifier_Trace", defs, traces, batch=200)
        out.add_model(vstats)
        for k, tr in enumerate(traces):
            out.cov["evaluations"] += 1
            out.cov["traces_validated_against_impl"] += 1
            if any(ln["a"] == "Lookup" for ln in tr) and any(s[0] in ("up", "down") and s[2] % K for s in stimuli[k]):
                distinct.add((name, stimuli[k], k >= len(traces) // 2))
            if len(samples) < 3 and k % 53 == 11:
                samples.append({"config": name, "behaviour": [list(s) for s in stimuli[k]], "trace": tr})
            if verdicts[k]:
                b = verdicts[k][0]
                ln = tr[b[1] - 1]
                what = "C20 %s: %s at line %d %s; behaviour=%s" % (name, b[0], b[1], ln, [list(s) for s in stimuli[k]])
                out.violation(what, {"formula": b[0], "line": ln, "config": name},
                              lambda p, tr=tr, st=stimuli[k], b=verdicts[k]: _dump(p, name, st, tr, b))
    # end to end: two storages sharing one SQLite file, real NotifyClients, real server loop, subscribers on both
    rnd = random.Random(seed)
    chunkings = [[32], [16, 16], [1, 31], [31, 1], [8, 8, 8, 8], [5, 27, 3, 29], [40, 24], [64]] + \
        [[rnd.randint(1, 40) for _ in range(5)] for _ in range({"quick": 8, "thorough": 80}[tier])]
    payloads = [(chunkings[k:k + 4], seed) for k in range(0, len(chunkings), 4)]
    e2e = [tr for res in pool.map_in_workers("harness.checks.c20", "_e2e_worker", payloads, config={"run_notifier": True}) for tr in res]
    chunkings = [c for p_ in payloads for c in list(p_[0]) + [["eager"] + list(p_[0][0])] + [["republish"] + list(p_[0][0])]]
    defs = {"TD_Workers": {1, 2}, "TD_IdsOf": {1: ["a", "b"], 2: ["c"]}, "TD_K": 4}
    defs_rep = {"TD_Workers": {1, 2}, "TD_IdsOf": {1: ["a", "a2"], 2: ["c"]}, "TD_K": 4}
    is_rep = [bool(c and c[0] == "republish") for c in chunkings]
    idx_n = [k for k in range(len(e2e)) if not is_rep[k]]
    idx_r = [k for k in range(len(e2e)) if is_rep[k]]
    v_n, vstats = tracedata.validate("Notifier_Trace", defs, [e2e[k] for k in idx_n], batch=50)
    v_r, vstats_r = tracedata.validate("Notifier_Trace", defs_rep, [e2e[k] for k in idx_r], batch=50)
    out.add_model(vstats)
    out.add_model(vstats_r)
    verdicts = {}
    for pos, k in enumerate(idx_n):
        verdicts[k] = v_n[pos]
    for pos, k in enumerate(idx_r):
        verdicts[k] = v_r[pos]
    for k, tr in enumerate(e2e):
        out.cov["evaluations"] += 1
        out.cov["traces_validated_against_impl"] += 1
        distinct.add(("e2e", tuple(chunkings[k]), False))
        if verdicts[k]:
            b = verdicts[k][0]
            what = "C20 end-to-end (two DBStorage workers on one SQLite file, chunk sizes %s): %s at line %d %s; trace %s" % (
                chunkings[k], b[0], b[1], tr[b[1] - 1], tr)
            out.violation(what, {"formula": b[0], "line": tr[b[1] - 1], "config": "e2e"}, None)
    out.notes["end_to_end_runs"] = len(e2e)
    # the start-up window of a worker, over real loopback TCP (one run; needs the notifier's port)
    st_tr = None
    for _ in range(5):
        st_tr = pool.map_in_workers("harness.checks.c20", "_startup_worker", [None], config={"run_notifier": True})[0]
        if st_tr is not None:
            break
        import time as _time

        _time.sleep(3)
    if st_tr is None:
        out.notes["startup_scenario"] = "skipped: port 6000 of the notifier was not available"
    else:
        v3, vstats3 = tracedata.validate("Notifier_Trace", defs, [st_tr], batch=1)
        out.add_model(vstats3)
        out.cov["evaluations"] += 1
        out.cov["traces_validated_against_impl"] += 1
        out.notes["startup_scenario"] = st_tr
        for b in v3[0]:
            what = "C20 start-up window (real NotifyServer / NotifyClient over loopback; worker 1 accepts `a` before its notifier connects): %s at line %d; trace %s" % (
                b[0], b[1], st_tr)
            if out.violation(what, {"formula": b[0], "line": st_tr[b[1] - 1], "config": "startup", "trace": st_tr}, None):
                break
    design.join(out)
    out.cov["distinct_nontrivial"] = len(distinct)
    out.cov["rule"] = ("behaviours of Notifier.tla from TLC -simulate (announce / deliver n symbols up or down / one peer drop; 3 "
                       "configurations of 2-3 workers, 3-4 ids, 2-4 symbols per id), each run twice on the real NotifyServer / "
                       "NotifyClient over in-memory streams: with symbol-aligned byte chunks and with +-1..3 bytes of jitter on "
                       "every delivery; a case is (configuration, behaviour, jitter); non-trivial = an id was split across "
                       "deliveries and a look-up happened")
    out.cov["samples"] = samples or [{"note": "none"}]
    return out


def _dump(path, name, stim, tr, bad):
    import json
    import os

    os.makedirs(os.path.dirname(path), exist_ok=True)
    with open(path, "w") as fp:
        json.dump({"meta": {"property": "C20", "config": name}, "verdict": bad, "behaviour": [list(s) for s in stim], "trace": tr}, fp, indent=1)
