"""
The bulk-load admission path (C03 "... on every admission path (websocket EVENT, bulk load, internal service events)"):
the repository's own command line, `nostr-relay -c <config> load <dump>`, is run as a separate process on dumps made of
the store-level universes (forgeries, twins, representations, malformed-but-authentic events, out-of-order versions);
the store it leaves is reopened, dumped and judged by TLC as one `Load(seq)` step of Store.tla (Store_Trace.tla):
the result must be a store that Submit / WriterStep steps of the single events can produce, and C03_OnlyAuthentic must
hold of it.  Configurations: no `validators` key (the default pipeline), the default validator listed explicitly, and
listed together with others; dumps as EVENT frames and as bare objects.
"""
import asyncio
import json
import os
import random
import subprocess
import sys

from .. import common as C
from .. import pool, trace
from ..report import Outcome
from ..universe import Universe
from . import storefam

VALIDATOR_VARIANTS = {
    "default": None,
    "listed": ["nostr_relay.validators.is_signed"],
    "extras": ["nostr_relay.validators.is_not_too_large", "nostr_relay.validators.is_signed", "nostr_relay.validators.is_recent",
               "nostr_relay.validators.is_not_hellthread"],
}


def _sequences(uname, uni, rnd, tier):
    order = list(uni.order)
    seqs = [order, list(reversed(order))]
    for _ in range({"quick": 2, "thorough": 8}[tier]):
        o = list(order)
        rnd.shuffle(o)
        seqs.append(o)
    return seqs


def _with_repeats(seq, backend):
    """on SQL some events come twice; on LMDB the outcome of a resubmission depends on how far the writer thread lags behind
    (Store.tla's Submit / WriterStep interleavings), which the end state of a load does not determine: no repetitions there"""
    return tuple(seq) + (tuple(seq[:3]) if backend == "sql" else ())


def _worker(payload):
    backend, vname, fmt, uname, seq = payload[:5]
    uni = pool._CTX["unis"][uname]
    import yaml
    from .. import storedrv

    with C.Scratch(prefix="load-") as d:
        storage = {"class": "nostr_relay.storage.db.DBStorage", "sqlalchemy.url": "sqlite+aiosqlite:///" + os.path.join(d, "db.sqlite3")} \
            if backend == "sql" else {"class": "nostr_relay.storage.kv.LMDBStorage", "path": os.path.join(d, "lmdb"), "map_size": 64 * 1024 * 1024}
        if VALIDATOR_VARIANTS[vname] is not None:
            storage["validators"] = list(VALIDATOR_VARIANTS[vname])
        conf = {"DEBUG": False, "storage": storage, "logging": {"version": 1, "disable_existing_loggers": False},
                "authentication": {"enabled": False}, "garbage_collector": {"collect_interval": 100000}}
        cfg = os.path.join(d, "config.yaml")
        with open(cfg, "w") as fp:
            yaml.safe_dump(conf, fp)
        dump = os.path.join(d, "dump.jsonl")
        with open(dump, "w") as fp:
            for s in seq:
                ev = uni.conc[s]
                fp.write(json.dumps(["EVENT", ev] if fmt == "frames" else ev, ensure_ascii=False) + "\n")

        async def prepare():
            # the schema of an SQL database is made by migrations in production; here by the metadata, as the tests do
            if backend == "sql":
                st = await C.make_sql_storage(storage["sqlalchemy.url"])
                await st.close()
        asyncio.run(prepare())
        env = dict(os.environ)
        env["PYTHONPATH"] = os.pathsep.join([os.path.join(C.VERIF, "shim"), C.REPO])
        p = subprocess.run([sys.executable, "-c", "import sys; sys.argv[0] = 'nostr-relay'; from nostr_relay.cli import main; main()",
                            "-c", cfg, "load", dump], cwd=d, env=env, stdout=subprocess.PIPE, stderr=subprocess.STDOUT, timeout=300,
                           text=True, errors="replace")
        out = p.stdout[-1500:]

        async def look():
            st = await storedrv.open_storage(backend, d if backend == "sql" else os.path.join(d, "lmdb"))
            try:
                post = await storedrv.dump_ids(st, backend, uni)
                probes = await storedrv.run_script(st, backend, uni, storefam.final_probes(uni, "C03"))
            finally:
                await storedrv.close_storage(st)
            return post, probes
        post, probes = asyncio.run(look())
    total = None
    for ln in out.splitlines():
        if ln.startswith("total:"):
            try:
                total = int(ln.split(":")[1])
            except ValueError:
                pass
    return [{"a": "Load", "seq": list(seq), "full": p.returncode == 0 and total is not None, "post": post, "_rc": p.returncode, "_tb": "Traceback" in p.stdout, "_total": total, "_out": out if p.returncode else ""}] + probes


def run(prop, tier, seed, backends=("sql", "lmdb"), only_universe=None):
    out = Outcome(prop, tier, seed, "exploration")
    rnd = random.Random(seed)
    unis = {}
    c03 = storefam.universes_c03()
    for uname in ("forged", "twins", "verbatim"):
        unis[uname] = Universe(c03[uname], symtab=storefam.SYMTABS.get(uname))
    unis["ack"] = Universe(storefam.universes_c06()["ack"], symtab=storefam.SYMTABS.get("ack"))
    unis["repl"] = Universe(storefam.universes_c09()["repl"])
    payloads = []
    for uname, uni in unis.items():
        if only_universe and uname != only_universe:
            continue
        for k, seq in enumerate(_sequences(uname, uni, rnd, tier)):
            for backend in backends:
                for vname in VALIDATOR_VARIANTS:
                    for fmt in ("frames", "bare"):
                        if tier == "quick" and k > 0 and (fmt == "bare" or vname == "extras"):
                            continue
                        payloads.append((backend, vname, fmt, uname, _with_repeats(seq, backend) if k >= 2 else tuple(seq)))
    results = pool.map_in_workers("harness.checks.bulkload", "_worker", payloads, shared={"unis": unis})
    jobs = {}
    for pl, tr in zip(payloads, results):
        jobs.setdefault((pl[3], pl[0]), {"uni": unis[pl[3]], "backend": pl[0], "traces": [], "payloads": []})
        jobs[(pl[3], pl[0])]["traces"].append(tr)
        jobs[(pl[3], pl[0])]["payloads"].append(pl)
    jl = list(jobs.values())
    verdicts = trace.validate_many(jl, batch=50)
    distinct = set()
    samples = []
    aborted = 0
    for js, (vd, vstats) in zip(jl, verdicts):
        out.add_model(vstats)
        for k, tr in enumerate(js["traces"]):
            pl = js["payloads"][k]
            out.cov["evaluations"] += 1
            out.cov["traces_validated_against_impl"] += 1
            if tr[0]["_rc"] != 0 and not tr[0]["_tb"]:
                raise RuntimeError("cli load failed to run (%s): %s" % (pl[:4], tr[0]["_out"]))
            aborted += 0 if tr[0]["full"] else 1
            if any(not js["uni"].abs[s]["auth"] for s in pl[4]) and tr[0]["post"]:
                distinct.add(pl)
            if len(samples) < 2 and k % 7 == 3:
                samples.append({"backend": pl[0], "validators": pl[1], "dump_format": pl[2], "universe": pl[3], "seq": list(pl[4]),
                                "post": sorted(tr[0]["post"])})
            mine = [b for b in vd[k] if b[0].startswith(prop + "_") or b[0] in ("Garbage", "Conform")]
            if mine:
                first = mine[0]
                ln = tr[first[1] - 1]
                what = "%s on %s, cli load (%s validators, %s, universe %s): %s; dump=%s -> store=%s" % (
                    prop, pl[0], pl[1], pl[2], pl[3], first[0], list(pl[4]), sorted(tr[0]["post"]))
                out.violation(what, {"backend": pl[0], "formula": first[0], "line": storefam._pub(ln), "universe": pl[3]},
                              lambda p, js=js, tr=tr, bad=vd[k], pl=pl: trace.dump_replay(
                                  p, {"property": prop, "backend": pl[0], "universe": pl[3], "path": "cli load", "validators": pl[1],
                                      "dump_format": pl[2]}, js["uni"], tr, bad))
    out.cov["distinct_nontrivial"] = len(distinct)
    out.cov["rule"] = ("the bulk-load path: `nostr-relay -c <config> load <dump>` run as a separate process on dumps of the forged / twins / "
                       "verbatim / ack / repl universes (listed, reversed and seeded orders with repetitions) x both backends x three "
                       "validator configurations (no `validators` key, the default listed, listed with others) x two dump formats; the "
                       "reopened store is judged by TLC as one Load(seq) step of Store.tla (C03_OnlyAuthentic, Conform) and probed by id; "
                       "a case is (backend, configuration, format, dump); non-trivial = the dump contained a forgery and something was stored")
    out.cov["samples"] = samples or [{"note": "none"}]
    out.notes["loads_that_died_on_an_event"] = aborted
    return out
