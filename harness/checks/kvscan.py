"""
The LMDB planner / scanner / matcher against its transcription KvScan.tla (second engine of C02, also run for C12).

  (a) TLC model-checks the transcription over every store of a six-event universe x a product grammar of filters
      (MC_KvScan: soundness, completeness under the limit, no duplicates, at most the limit, newest-first for single
      walks; MC_KvScan_asfound reproduces the open finding that multi-value scans are newest-first per value only).
  (b) The real LMDBStorage answers a grammar of filters over seeded stores; a harness-side wrapper around kv.matcher
      records what the scanner hands to the matcher.  TLC runs the transcription on every (store, filter)
      (KvScan_Trace.tla), compares its yields and answer with the recorded ones and evaluates the query clauses on the
      recorded answer.  A run on which code and transcription differ is a *deviation* (reported, not an alarm: the
      property is judged on the recorded answer); the branch paths TLC reports give the coverage.
"""
import asyncio
import random

from .. import common as C
from .. import pool, tlc, tracedata
from ..report import Outcome
from ..universe import Universe, abs_filter_tla
from .storefam import E
from . import queryfam

SYMTAB = dict(queryfam.QUERY_SYMTAB, zz="ab" * 32, zy="00" * 32)
MAX_LIMIT = 4
LABELS = ["refused", "ids", "seek-until", "seek-end", "first", "exhausted", "next", "seek-failed", "below-stop", "yield", "filtered",
          "yield,first-key", "r-first-key", "r-yield", "r-foreign", "r-stop", "single", "chain-empty", "chain-end", "chain-next",
          "truncated", "all"]


def scan_universe():
    return queryfam.query_universe() + [
        E("f1", "B", 7, 30, [["t", "ab"]], id_prefix="ff"),       # ties with q4 / q9 at 30, id above a lone 0xff
        E("f0", "A", 1, 20, [["t", "a"], ["p", "B"]], id_prefix="00"),
        E("k8", "B", 8, 26, [["t", "ab"]]),
        E("tb", "C", 1, 30, [["t", "abcd"], ["t", "b"]]),
    ]


def filters(tier, rnd):
    ids = [None, ["q1"], ["q1", "q7", "zz"], ["zz"], ["q7", "f1", "q8", "zy"]]
    authors = [None, ["A"], ["B"], ["A", "B"], ["D"], ["C", "A"]]
    kinds = [None, [1], [7], [1, 7], [0], [7, 8], [1, 2, 7, 8], [10000, 5]]
    tags = [None, {"t": ["a"]}, {"t": ["ab"]}, {"t": ["a", "abc"]}, {"t": ["abcd", "ab", "a"]}, {"e": ["q1"]}, {"p": ["A"]},
            {"t": ["a"], "p": ["A"]}, {"t": ["zzz"]}, {"p": ["A", "B"]}, {"e": ["q1"], "t": ["ab"]}, {"@qt": ["a"]}, {"@bs": ["ab", "a"]}]
    times = [{}, {"since": 20}, {"until": 20}, {"until": 30}, {"since": 20, "until": 30}, {"since": 30, "until": 30}, {"since": 31, "until": 19},
             {"until": 60}, {"since": 60}] if tier == "quick" else \
        [dict(([("since", s)] if s is not None else []) + ([("until", u)] if u is not None else []))
         for s in (None, 9, 20, 30, 31, 60) for u in (None, 9, 20, 30, 31, 60, 61)]
    limits = [None, 0, 1, 2, MAX_LIMIT, 1000]
    out = []
    import itertools

    for i, a, k, t in itertools.product(ids, authors, kinds, tags):
        nset = sum(x is not None for x in (i, a, k, t))
        if nset > 2:
            continue
        for tm in times:
            if nset == 0 and not tm:
                out.append({})
                continue
            out.append(queryfam.mk_filter(i, a, k, t, tm, None))
            out.append(queryfam.mk_filter(i, a, k, t, tm, rnd.choice(limits[1:])))
    rest = [c for c in itertools.product(ids, authors, kinds, tags) if sum(x is not None for x in c) > 2]
    rnd.shuffle(rest)
    for c in rest[: (200 if tier == "quick" else 2000)]:
        out.append(queryfam.mk_filter(*c, rnd.choice(times), rnd.choice(limits)))
    # degenerate forms the planner refuses
    out += [{"ids": []}, {"kinds": []}, {"authors": [], "kinds": [1]}, {"tags": {"t": []}}, {"kinds": [1], "tags": {"t": []}}]
    seen = {}
    for f in out:
        seen.setdefault(repr(sorted(f.items(), key=str)), f)
    return list(seen.values())


def stores(tier, rnd, uni):
    """submission orders; the store each one leaves is dumped from the environment"""
    syms = list(uni.order)
    out = [list(h) for h in queryfam.HISTORIES] + [syms]
    for _ in range(6 if tier == "quick" else 40):
        k = rnd.choice([3, 5, 8, 11, 14])
        out.append(rnd.sample(syms, min(k, len(syms))))
    return out


def _worker(payload):
    key, history, flts = payload
    from .. import storedrv as D
    import nostr_relay.storage.kv as kv

    uni = pool._CTX[key]
    cap = {}
    orig = kv.matcher

    def spy(txn, it, query_items, stats):
        ys = []
        cap["ys"] = ys

        def tee():
            for x in it:
                ys.append(bytes(x).hex())
                yield x
        return orig(txn, tee(), query_items, stats)

    async def main():
        lines = []
        with C.Scratch() as d:
            st = await D.open_storage("lmdb", d)
            kv.matcher = spy
            try:
                script = []
                for s in history:
                    script += [("submit", s), ("drain",)]
                await D.run_script(st, "lmdb", uni, script)
                store = await D.dump_ids(st, "lmdb", uni)
                for f in flts:
                    cap.pop("ys", None)
                    evs, err = await D.stored_answer(st, [uni.conc_filter(f)])
                    ans = []
                    for e in evs:
                        s = uni.sym_event(e)
                        ans.append(s if s is not None else "?" + str(getattr(e, "id", e))[:16])
                    ys = [uni.sym_of_id.get(h, "?" + h[:16]) for h in cap.get("ys", [])]
                    lines.append({"store": set(store), "f": abs_filter_tla(f), "ys": ys, "ans": ans, "_f": f, "_err": err})
            finally:
                kv.matcher = orig
                await D.close_storage(st)
        return lines

    return asyncio.run(main())


def _encodings(uni, flts):
    """order-preserving symbol tables for KvScan.tla, computed from the real bytes"""
    authors = sorted(uni.authors, key=lambda a: C.pubkey(a))
    pksym = {a: k + 1 for k, a in enumerate(authors)}
    idhex = {s: uni.conc[s]["id"] for s in uni.order}
    for f in flts:
        for s in f.get("ids", []):
            if s not in idhex:
                idhex[s] = uni.conc_value(s)
    ranked = sorted(idhex, key=lambda s: bytes.fromhex(idhex[s]))
    idsym = {}
    for k, s in enumerate(ranked):
        idsym[s] = (256 if idhex[s].startswith("ff") else 0) + k + 1
    table = {}

    def put(sym, conc):
        b = str(conc).encode()
        if b"\x00" in b:
            raise ValueError("NUL in a string: outside KvScan.tla")
        if table.setdefault(sym, b) != b:
            raise ValueError("symbol %r has two concrete forms" % (sym,))

    for sym in uni.order:
        for at, ct in zip(uni.abs[sym]["tags"], uni.conc[sym]["tags"]):
            if at and isinstance(ct[0], str):
                put(at[0], ct[0])
                if len(at) >= 2:
                    put(at[1], ct[1])
    for f in flts:
        cf = uni.conc_filter(f)
        for (n, vals), (cn, cvals) in zip(f.get("tags", {}).items(), [(k, v) for k, v in cf.items() if k.startswith("#")]):
            put(n, cn[1:])
            for v, cv in zip(vals, cvals):
                put(v, cv)
    # truncate long strings (hex ids / pubkeys as tag values) as far as the table stays injective: order and prefix
    # relations among the strings are preserved
    L = 4
    while len({b[:L] for b in table.values()}) < len(set(table.values())):
        L += 1
    chars = {s: list(b[:L]) for s, b in table.items()}
    return pksym, idsym, chars


def run(prop, tier, seed, **kw):
    if prop in ("C08", "C09"):
        return run_writer(prop, tier, seed, **kw)
    out = Outcome(prop, tier, seed, "model_checking")
    for key, fn in queryfam.MATCHERS.get(prop, {}).items():
        out.add_matcher(key, fn)
    if prop == "C12":
        # tighter than the black-box matcher: the recorded answer is exactly what the transcribed (as found) algorithm
        # produces for this store and filter, and the filter has several match values / a chained scan
        out.add_matcher("lmdb-multivalue-scan-not-globally-newest",
                        lambda a: a["formula"] == "C12_Limit" and a["conforms"] and queryfam._multi_key(a["line"]["fs"][0]))
    rnd = random.Random(seed)
    design = tlc.DesignCheck([("MC_KvScan", "MC_KvScan_quick.cfg" if tier == "quick" else "MC_KvScan.cfg", "KvScan")], workers=6, timeout=3000)
    uni = Universe(scan_universe(), symtab=SYMTAB)
    flts = filters(tier, rnd)
    hist = stores(tier, rnd, uni)
    per = 120
    payloads = []
    key = id(uni)
    pool._CTX[key] = uni
    try:
        for h in hist:
            fl = list(flts)
            rnd.shuffle(fl)
            if tier == "quick":
                fl = fl[: len(fl) // 6]
            for b in range(0, len(fl), per):
                payloads.append((key, h, fl[b:b + per]))
        traces = pool.map_in_workers("harness.checks.kvscan", "_worker", payloads, config={"max_limit": MAX_LIMIT})
    finally:
        pool._CTX.pop(key, None)
    pksym, idsym, chars = _encodings(uni, flts)
    defs = {"TD_Universe": uni.tla_universe(), "TD_OneCharNames": uni.one_char_names() | {n for f in flts for n in f.get("tags", {})},
            "TD_MaxLimit": MAX_LIMIT, "TD_PkSym": pksym, "TD_IdSym": idsym, "TD_Chars": chars}
    raw = {}
    verdicts, vstats = tracedata.validate("KvScan_Trace", defs, traces, batch=4, raw=raw)
    out.add_model(vstats)
    own = {"C02": ("C02_",), "C12": ("C12_",)}.get(prop, (prop + "_",))
    paths = {}
    labels = {}
    deviations = []
    other = {}
    distinct = set()
    for k, tr in enumerate(traces):
        out.cov["traces_validated_against_impl"] += 1
        out.cov["evaluations"] += len(tr)
        for n, p in enumerate(raw.get(k, {}).get("paths", [])):
            sig = ">".join(_squash(p))
            paths[sig] = paths.get(sig, 0) + 1
            for lab in p:
                labels[lab.split(":")[0] if lab.startswith("plan:") else lab] = labels.get(lab, 0) + 1
            if tr[n]["ans"]:
                distinct.add((repr(sorted(tr[n]["store"])), repr(tr[n]["_f"])))
        deviating = {b[1] for b in verdicts[k] if b[0] == "Conform"}
        for b in verdicts[k]:
            ln = tr[b[1] - 1]
            if b[0] == "Conform":
                if len(deviations) < 20:
                    deviations.append({"store": sorted(ln["store"]), "filter": ln["_f"], "scanner_yields": ln["ys"], "answer": ln["ans"]})
                other["model-deviation"] = other.get("model-deviation", 0) + 1
                continue
            if not b[0].startswith(own):
                other[b[0]] = other.get(b[0], 0) + 1
                continue
            attrs = {"backend": "lmdb", "formula": b[0], "line": {"a": "Query", "fs": [ln["_f"]], "res": ln["ans"]}, "uni": uni,
                     "store": set(ln["store"]), "palette": "plain", "limited": True, "conforms": b[1] not in deviating}
            what = "%s on lmdb (scanner engine): %s violated by answer %s to filter %s over store %s (scanner yields %s)" % (
                prop, b[0], ln["ans"], ln["_f"], sorted(ln["store"]), ln["ys"])
            out.violation(what, attrs, lambda p, ln=ln, b=b: _dump(p, prop, uni, ln, b))
    design.join(out)
    if other.get("model-deviation"):
        print("NOTE: on %d of %d runs the LMDB scanner and its transcription KvScan.tla differ (yields or answer); the design-level "
              "result of MC_KvScan no longer transfers to this code. First: %s" % (other["model-deviation"], out.cov["evaluations"],
                                                                                  deviations[0]))
    out.cov["distinct_nontrivial"] = len(distinct)
    out.cov["rule"] = ("scanner engine: %d filters (ids x authors x kinds x tag conditions, at most two set, x since/until windows incl. "
                       "bounds equal to stored timestamps, with and without limits; a seeded sample of 3/4-field conjunctions; degenerate "
                       "forms) over %d seeded stores of a 17-event universe (ids starting 0xff and 0x00, equal timestamps, tag values "
                       "that are prefixes of one another), max_limit=%d, through storage.subscribe on LMDBStorage; for every run TLC "
                       "executes KvScan.tla on the dumped store and the filter, compares yields and answer, and evaluates the query "
                       "clauses on the real answer; non-trivial = non-empty answer" % (len(flts), len(hist), MAX_LIMIT))
    out.cov["samples"] = [{"store": sorted(t[0]["store"]), "filter": t[0]["_f"], "scanner_yields": t[0]["ys"], "answer": t[0]["ans"]}
                          for t in traces[:3] if t]
    out.notes["scanner_paths_distinct"] = len(paths)
    out.notes["scanner_branch_labels_exercised"] = {lab: labels.get(lab, 0) for lab in LABELS}
    out.notes["scanner_model_deviations"] = {"count": other.get("model-deviation", 0), "first": deviations[:5]}
    out.notes["scanner_violations_of_other_properties_seen"] = {k: v for k, v in other.items() if k != "model-deviation"}
    return out


def _squash(p):
    """path signature: consecutive repetitions of a label collapse"""
    out = []
    for x in p:
        if not out or out[-1] != x:
            out.append(x)
    return out


def _dump(path, prop, uni, ln, b):
    import json

    with open(path, "w") as fp:
        json.dump({"meta": {"property": prop, "backend": "lmdb", "engine": "kvscan", "store": sorted(ln["store"]), "filter": ln["_f"],
                            "concrete_filter": uni.conc_filter(ln["_f"])},
                   "verdict": [b], "trace": [{"scanner_yields": ln["ys"], "answer": ln["ans"], "error": ln["_err"]}]}, fp, indent=1, default=str)


# ---------------------------------------------------------------------------------------------
# writer engine: WriterThread.run / _post_save against KvWrite.tla (second engine of C08 and C09)

def _writer_lines(tr):
    """(pre, op, id, post) for every write transaction of a store trace on LMDB"""
    out = []
    pre, q = set(), []
    for ln in tr:
        if ln["a"] == "Writer" and q:
            op, sym = q[0]
            if op in ("add", "del") and not str(sym).startswith("?"):
                out.append({"pre": set(pre), "op": op, "id": sym, "post": set(ln["post"])})
        if "post" in ln:
            pre = set(ln["post"])
        if "q" in ln:
            q = list(ln["q"])
    return out


def run_writer(prop, tier, seed, **kw):
    from .. import gen
    from . import storefam

    out = Outcome(prop, tier, seed, "model_checking")
    rnd = random.Random(seed)
    design = tlc.DesignCheck([("MC_KvWrite", "MC_KvWrite.cfg", "KvWrite")], workers=4, timeout=1800)
    depth = {"quick": 3, "thorough": 4}[tier]
    cap = {"quick": 400, "thorough": 6000}[tier]
    own = prop + "_"
    total_dev = 0
    first_dev = None
    distinct = set()
    samples = []
    for uname, descs in storefam.UNIVERSES[prop]().items():
        uni = Universe(descs, symtab=storefam.SYMTABS.get(uname))
        try:
            pksym, idsym, chars = _encodings(uni, [])
        except ValueError:
            continue        # strings with NUL: outside the byte-order model
        scripts, gstats = gen.gen_store_scripts(uni, "lmdb", depth, (), drain_each=False, workers=2)
        out.add_model(gstats)
        scripts = sorted(scripts)
        if len(scripts) > cap:
            rnd.shuffle(scripts)
            scripts = scripts[:cap]
        traces = pool.run_scripts(uni, "lmdb", [tuple(sc) for sc in scripts])
        wtr = [_writer_lines(tr) for tr in traces]
        # e-tag values name events by symbol: their concrete form is the hex id, whose bytes the table needs only as tag values
        defs = {"TD_Universe": uni.tla_universe(), "TD_OneCharNames": uni.one_char_names(), "TD_PkSym": pksym, "TD_IdSym": idsym, "TD_Chars": chars}
        verdicts, vstats = tracedata.validate("KvWrite_Trace", defs, wtr, batch=100)
        out.add_model(vstats)
        for k, tr in enumerate(wtr):
            if not tr:
                continue
            out.cov["traces_validated_against_impl"] += 1
            out.cov["evaluations"] += len(tr)
            for ln in tr:
                if ln["pre"] - ln["post"]:
                    distinct.add((uname, repr(sorted(ln["pre"])), ln["op"], ln["id"]))
            if len(samples) < 3 and k % 53 == 7:
                samples.append({"universe": uname, "script": list(scripts[k]), "writer_steps": [{a: (sorted(b) if isinstance(b, set) else b) for a, b in ln.items()} for ln in tr]})
            for b in verdicts[k]:
                ln = tr[b[1] - 1]
                if b[0] == "Conform":
                    total_dev += 1
                    first_dev = first_dev or {"universe": uname, "step": {a: (sorted(x) if isinstance(x, set) else x) for a, x in ln.items()}}
                    continue
                if not b[0].startswith(own):
                    continue
                what = "%s on lmdb/%s (writer engine): %s violated by write transaction %s of %s: %s -> %s; script=%s" % (
                    prop, uname, b[0], ln["op"], ln["id"], sorted(ln["pre"]), sorted(ln["post"]), list(scripts[k]))
                out.violation(what, {"backend": "lmdb", "universe": uname, "formula": b[0], "line": ln, "script": list(scripts[k])},
                              lambda p, ln=ln, b=b, uname=uname, sc=scripts[k]: _dump_w(p, prop, uname, sc, ln, b))
    design.join(out)
    if total_dev:
        print("NOTE: on %d write transactions the LMDB writer and its transcription KvWrite.tla differ; the design-level result of "
              "MC_KvWrite no longer transfers to this code. First: %s" % (total_dev, first_dev))
    out.cov["distinct_nontrivial"] = len(distinct)
    out.cov["rule"] = ("writer engine: behaviours of Store.tla to depth %d (writer lagging) over the %s universes on LMDBStorage; for every "
                       "write transaction (stored ids before, queued operation, stored ids after, all dumped from the environment) TLC "
                       "computes KvWrite.tla's outcome - index walk of KvScan.tla included - compares, and evaluates the %s clauses on the "
                       "recorded step; non-trivial = the transaction removed something" % (depth, prop, prop))
    out.cov["samples"] = samples or [{"note": "none"}]
    out.notes["writer_model_deviations"] = {"count": total_dev, "first": first_dev}
    return out


def _dump_w(path, prop, uname, script, ln, b):
    import json

    with open(path, "w") as fp:
        json.dump({"meta": {"property": prop, "backend": "lmdb", "engine": "kvwrite", "universe": uname, "script": list(script)},
                   "verdict": [b], "trace": [{a: (sorted(x) if isinstance(x, set) else x) for a, x in ln.items()}]}, fp, indent=1, default=str)
