"""
Generic batch runner for the *_Trace specifications that take their inputs from a generated TraceData module
(literal definitions: fast, see DESIGN 4.7).  Each batch runs one single-worker TLC on a copy of the trace
specification; the verdict of every trace is the JSON line the specification prints when the trace is consumed.
"""
import concurrent.futures
import os
import shutil

from . import tlc

TRACE_CFG = "SPECIFICATION TraceSpec\nCHECK_DEADLOCK FALSE\n"


def _strip(tr):
    return [{k: v for k, v in ln.items() if not k.startswith("_")} for ln in tr]


def _data_module(defs, traces):
    body = ["---- MODULE TraceData ----", "EXTENDS Integers, Sequences, TLC"]
    for k, v in defs.items():
        body.append("%s == %s" % (k, tlc.tla(v)))
    body.append("Traces == %s" % tlc.tla([_strip(tr) for tr in traces]))
    body.append("====")
    return "\n".join(body) + "\n"


def _run(args):
    spec, text, ntraces, timeout = args
    with tlc.Workdir(prefix="tb-") as wd:
        wd.write("TraceData.tla", text)
        shutil.copy(os.path.join(tlc.SPEC_DIR, spec + ".tla"), os.path.join(wd.path, spec + ".tla"))
        cfg = wd.write(spec + ".cfg", TRACE_CFG)
        res = tlc.run_tlc(wd, spec, cfg, workers=1, timeout=timeout, heap="3g")
    # where the trace specification has to guess something the log does not show (which of two connections' commits made an
    # event visible) TLC follows every guess and prints one verdict per end state: a trace is explained if one of them explains it
    verdicts = {}
    for obj in tlc.printed_json(res["out"]):
        if obj["tid"] not in verdicts or len(obj["bad"]) < len(verdicts[obj["tid"]]["bad"]):
            verdicts[obj["tid"]] = obj
    stats = tlc.parse_stats(res["out"])
    ok = res["rc"] == 0 and stats is not None and len(verdicts) == ntraces
    return {"ok": ok, "verdicts": verdicts, "stats": stats, "out": res["out"] if not ok else ""}


def validate(spec, defs, traces, batch=500, jobs=16, timeout=1200, raw=None):
    """
    spec: name of the trace specification in /verif/spec; defs: dict of TD_* definitions; traces: list of traces.
    Returns (verdicts, stats): verdicts[k] = sorted list of [name, line, ...] for trace k.
    """
    idx = [k for k, tr in enumerate(traces) if tr]
    jobs_args = []
    chunks = []
    for b in range(0, len(idx), batch):
        chunk = idx[b:b + batch]
        chunks.append(chunk)
        jobs_args.append((spec, _data_module(defs, [traces[k] for k in chunk]), len(chunk), timeout))
    verdicts = {k: [] for k in range(len(traces))}
    total = {"generated": 0, "distinct": 0, "batches": len(chunks)}
    with concurrent.futures.ThreadPoolExecutor(max_workers=max(1, min(jobs, len(chunks) or 1))) as ex:
        results = list(ex.map(_run, jobs_args))
    for chunk, res in zip(chunks, results):
        if not res["ok"]:
            raise tlc.TlcError("%s failed to run: %s" % (spec, tlc.tlc_failed_how(res["out"])))
        total["generated"] += res["stats"]["generated"]
        total["distinct"] += res["stats"]["distinct"]
        for pos, k in enumerate(chunk):
            verdicts[k] = sorted([list(x) for x in res["verdicts"][pos + 1]["bad"]], key=lambda x: (x[1], x[0]))
            if raw is not None:
                raw[k] = res["verdicts"][pos + 1]
    return verdicts, total
