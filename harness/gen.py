"""
Stimulus generation by TLC: behaviours of the specification itself, projected
on their environment actions (DESIGN §4.6).  The MC module adds a history
variable `hist` that records `last` after every step; TLC explores the
specification exhaustively up to a depth (or by -simulate) and prints `hist`
at the frontier.
"""
from . import tlc

GEN_EXTRA = r"""
VARIABLE hist
GenInit == Init /\ hist = <<>>
GenNext == Next /\ hist' = Append(hist, last')
GenSpec == GenInit /\ [][GenNext]_<<vars, hist>>
Frontier == Len(hist) = GenDepth
GenBound == Len(hist) <= GenDepth /\ Len(wq) <= 3
GenEmit == Frontier => PrintT("@@" \o ToJson(hist))
"""


def store_gen_module(name, uni, backend, depth, gc_times=(), policy_refused=()):
    consts = {
        "Universe": uni.tla_universe(),
        "OneCharNames": set(uni.one_char_names()),
        "Backend": backend,
        "PolicyRefused": set(policy_refused),
        "GcTimes": set(gc_times),
    }
    extra = "GenDepth == %d\n" % depth + GEN_EXTRA
    return tlc.mc_module(name, "Store", ["store", "wq", "bcast", "last"], consts,
                         extends=("Integers", "Sequences", "FiniteSets", "TLC", "Json"), extra=extra)


GEN_CFG = "SPECIFICATION GenSpec\nCONSTRAINT GenBound\nINVARIANT GenEmit\nCHECK_DEADLOCK FALSE\n"


def _to_script(hist, drain_each):
    sc = []
    for h in hist:
        act = h["act"]
        if act == "Submit":
            sc.append(("submit", h["id"]))
            if drain_each:
                sc.append(("drain",))
        elif act == "Writer":
            if not drain_each:
                sc.append(("writer",))
        elif act == "Gc":
            sc.append(("gc", h["T"]))
            if drain_each:
                sc.append(("drain",))
        elif act == "Crash":
            sc.append(("crash",))
    if not drain_each:
        sc.append(("drain",))
    return tuple(sc)


def gen_store_scripts(uni, backend, depth, gc_times=(), policy_refused=(), simulate=None, seed=0, workers=8, timeout=900,
                      drain_each=False, keep_crash=False):
    """
    Returns (scripts, stats).  drain_each=True projects away the writer's lag
    (every Submit is followed by a full drain) - used on SQL and for the
    sequential LMDB histories; drain_each=False keeps the Writer steps TLC chose.
    """
    with tlc.Workdir(prefix="gen-") as wd:
        wd.write("MCG.tla", store_gen_module("MCG", uni, backend, depth, gc_times, policy_refused))
        cfg = wd.write("MCG.cfg", GEN_CFG)
        if simulate:
            res = tlc.run_tlc(wd, "MCG", cfg, workers=workers, timeout=timeout, simulate="num=%d" % simulate, depth=depth + 1,
                              seed=seed)
        else:
            res = tlc.run_tlc(wd, "MCG", cfg, workers=workers, timeout=timeout)
    stats = tlc.parse_stats(res["out"])
    if res["rc"] not in (0,) or (stats is None and not simulate):
        raise tlc.TlcError("stimulus generation failed: " + tlc.tlc_failed_how(res["out"]))
    seen = {}
    for hist in tlc.printed_json(res["out"]):
        if not keep_crash and any(h["act"] == "Crash" for h in hist):
            continue
        sc = _to_script(hist, drain_each)
        seen.setdefault(sc, None)
    return list(seen), stats or {"generated": 0, "distinct": 0}
