SPECIFICATION Spec
CONSTANT Exact = TRUE
CONSTRAINT OneDrop
INVARIANT C20_Intact
INVARIANT C20_AtMostOnce
INVARIANT C20_SenderOrder
INVARIANT C20_AllDelivered
INVARIANT C20_StayersServed
CHECK_DEADLOCK FALSE
