SPECIFICATION FairSpec
CONSTRAINT EnvBound
PROPERTY L_EventuallyOk
PROPERTY L_EventuallyNotified
PROPERTY L_EventuallySent
PROPERTY L_NeverSilent
CHECK_DEADLOCK FALSE
