SPECIFICATION SpecL
CONSTANT Backend = "lmdb"
CONSTRAINT Bound
VIEW View
INVARIANT C03_OnlyAuthentic
INVARIANT C16_PolicyFailClosed
PROPERTY C06_RefusedLeavesNoTrace
PROPERTY C06_AdmissibleNotRefused
PROPERTY C06_DuplicateChangesNothing
PROPERTY C06_AckedIsRetrievable
PROPERTY C06_AckedIsQueuedOrStored
PROPERTY C06_BroadcastOncePerAccept
PROPERTY C07_Atomic
PROPERTY C08_OnlyAuthorDeletes
PROPERTY C09_Replaceable
PROPERTY C09_RefusedKeepsVersions
PROPERTY C17_GcExact
CHECK_DEADLOCK FALSE
