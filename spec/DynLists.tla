------------------------------ MODULE DynLists ------------------------------
(***************************************************************************)
(* Dynamic allow / deny lists (nostr_relay/dynamic_lists.py).  A periodic   *)
(* refresher recomputes both sets from stored events and rewrites the two   *)
(* module-level sets in place, one set operation at a time, while validator *)
(* threads (get_validator runs the validators in the default executor)      *)
(* read them.  Every set operation is atomic; between two of them a reader  *)
(* can observe the intermediate state.                                      *)
(*                                                                         *)
(* The refresher's mutations are transcribed:                               *)
(*   AsFound = TRUE    clear(); update(new)  per list, and only after both  *)
(*                     lists the static keys are added to the allow list    *)
(*   AsFound = FALSE   new includes the static keys; update(new);           *)
(*                     intersection_update(new)  (the repaired code)        *)
(* C16: while an allow list is enforced before and after a refresh, no      *)
(* reader ever finds it empty or finds a key missing that is in both the    *)
(* old and the new list; at rest the lists are exactly the p-tagged keys of *)
(* the configured queries plus the static whitelist.                        *)
(***************************************************************************)
EXTENDS Integers, Sequences, FiniteSets, TLC

CONSTANTS
    \* @type: Set(Str);
    Keys,         \* pubkeys
    \* @type: Set(Str);
    Static,       \* the static whitelist (service key + pubkey_whitelist)
    \* @type: Set(Set(Str));
    Targets,      \* the possible results of the allow-list queries (sets of keys)
    \* @type: Bool;
    AsFound

VARIABLES
    \* @type: Set(Str);
    allow,        \* ALLOWED_PUBKEYS
    \* @type: Set(Str);
    old,          \* the allow list before the refresh in progress
    \* @type: Set(Str);
    new,          \* the one being installed
    \* @type: Str;
    pc,           \* refresher: "idle" | "computed" | "cleared" | "updated" (as found) / "merged" (repaired)
    \* @type: Set({key: Str, allowed: Bool, old: Set(Str), new: Set(Str), busy: Bool});
    reads         \* the last observation of a validator thread: key, answer, and old/new at that instant

vars == <<allow, old, new, pc, reads>>

Full(t) == IF t = {} THEN {} ELSE t \cup Static          \* an empty query result means "not enforced"

Init == /\ allow = {} /\ old = {} /\ new = {} /\ pc = "idle" /\ reads = {}

Start(t) == /\ pc = "idle"
            /\ old' = allow /\ new' = Full(t)
            /\ pc' = "computed"
            /\ UNCHANGED <<allow, reads>>

\* as found: global_set.clear(); global_set.update(local_set); ... ALLOWED_PUBKEYS.update(initial)
Clear   == AsFound /\ pc = "computed" /\ allow' = {} /\ pc' = "cleared" /\ UNCHANGED <<old, new, reads>>
Update  == AsFound /\ pc = "cleared" /\ allow' = new \ Static /\ pc' = "updated" /\ UNCHANGED <<old, new, reads>>
AddInit == AsFound /\ pc = "updated" /\ allow' = (IF allow # {} THEN allow \cup Static ELSE allow) /\ pc' = "idle"
           /\ UNCHANGED <<old, new, reads>>
\* repaired: global_set.update(local_set); global_set.intersection_update(local_set)
Merge   == ~AsFound /\ pc = "computed" /\ allow' = allow \cup new /\ pc' = "merged" /\ UNCHANGED <<old, new, reads>>
Trim    == ~AsFound /\ pc = "merged" /\ allow' = allow \cap new /\ pc' = "idle" /\ UNCHANGED <<old, new, reads>>

\* is_pubkey_allowed on a validator thread: `if ALLOWED_PUBKEYS and key not in ALLOWED_PUBKEYS: refuse`
Read(k) == /\ reads' = {[key |-> k, allowed |-> (allow = {} \/ k \in allow), old |-> old, new |-> new, busy |-> pc # "idle"]}
           /\ UNCHANGED <<allow, old, new, pc>>

Next == \/ \E t \in Targets : Start(t)
        \/ Clear \/ Update \/ AddInit \/ Merge \/ Trim
        \/ \E k \in Keys : Read(k)

Spec == Init /\ [][Next]_vars

\* what a reader may be told while the list goes from o to n (at rest o = n = the installed list)
\* @type: ({key: Str, allowed: Bool, old: Set(Str), new: Set(Str), busy: Bool}) => Bool;
ReadOK(r) ==
    LET o == IF r.busy THEN r.old ELSE r.new
        n == r.new IN
    /\ (o # {} /\ n # {} /\ r.key \notin o \cup n) => ~r.allowed     \* enforced before and after: a stranger is refused
    /\ (r.key \in o \cap n) => r.allowed                             \* listed before and after: accepted
    /\ (o = {} /\ n = {}) => r.allowed                               \* not enforced: everyone accepted
C16_NoEmptyWindow == \A r \in reads : ReadOK(r)
\* at rest the list is exactly the query result plus the static whitelist
C16_ListExact == pc = "idle" => allow = new

----------------------------------------------------------------------------
(* An inductive invariant of the repaired refresher (AsFound = FALSE), discharged by Apalache for every state that
   satisfies it - reachable or not - over the constants of MC_DynLists_ind.tla:
     apalache-mc check --init=IndInv --inv=IndInv --length=1   (consecution)   and   --init=Init --inv=IndInv --length=0
   IndInv implies C16_NoEmptyWindow and C16_ListExact. *)
Shape(s) == s \subseteq Keys /\ (s = {} \/ Static \subseteq s)
IndInv ==
    /\ Shape(allow) /\ Shape(old) /\ Shape(new)
    /\ pc \in {"idle", "computed", "merged"}
    /\ (pc = "idle" => allow = new)
    /\ (pc = "computed" => allow = old)
    /\ (pc = "merged" => allow = old \cup new)
    /\ \A r \in reads : r.key \in Keys /\ r.old \subseteq Keys /\ r.new \subseteq Keys /\ ReadOK(r)
=============================================================================
