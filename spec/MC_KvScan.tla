------------------------------ MODULE MC_KvScan ------------------------------
(* Exhaustive configuration of KvScan.tla: every store over a six-event universe (equal timestamps, tag values that
   are prefixes of one another, an id starting 0xff) x a product grammar of filters.  *)
EXTENDS Integers, Sequences, FiniteSets, TLC

E(pk, kind, ts, tags) == [pk |-> pk, kind |-> kind, ts |-> ts, tags |-> tags, auth |-> TRUE, exp |-> <<>>]
Universe_def == [e1 |-> E("A", 1, 1, << <<"t", "a">> >>),
                 e2 |-> E("A", 1, 2, << <<"t", "ab">> >>),
                 e3 |-> E("B", 1, 2, << <<"t", "a">>, <<"p", "A">> >>),
                 e4 |-> E("B", 7, 3, << <<"t", "a">> >>),
                 e5 |-> E("A", 7, 3, << <<"t", "ab">>, <<"t", "a">> >>),
                 e6 |-> E("B", 1, 2, <<>>)]
OneCharNames_def == {"t", "p"}
PkSym_def == [A |-> 1, B |-> 2, D |-> 3]
IdSym_def == [e1 |-> 3, e2 |-> 5, e3 |-> 2, e4 |-> 4, e5 |-> 1, e6 |-> 300, zz |-> 6]
Chars_def == [t |-> <<116>>, p |-> <<112>>, a |-> <<97>>, ab |-> <<97, 98>>, A |-> <<65>>]
MaxLimit_def == 4
SeekRepaired == 100000
SeekAsFound == 255

AllIds == {"e1", "e2", "e3", "e4", "e5", "e6"}
Stores_full == SUBSET AllIds
Stores_quick == {S \in SUBSET AllIds : Cardinality(S) >= 4}

O(S) == {<<>>} \cup {<<x>> : x \in S}
Filters_def == [ids : O({{"e1"}, {"e1", "e6", "zz"}}),
                authors : O({{"A"}, {"A", "B"}, {"D"}}),
                kinds : O({{1}, {1, 7}, {7, 8}}),
                tags : {{}, {<<"t", {"a"}>>}, {<<"t", {"a", "ab"}>>}, {<<"t", {"a"}>>, <<"p", {"A"}>>}},
                since : O({2}), until : O({2, 3}), limit : O({0, 1})]

VARIABLES store, flt, ks, pc, stage, allowed, pos, mi, ys, ordered, ans, path
CONSTANTS StoresC, SeekTopC, RangeC
INSTANCE KvScan WITH Universe <- Universe_def, OneCharNames <- OneCharNames_def, PkSym <- PkSym_def, IdSym <- IdSym_def,
                     Chars <- Chars_def, MaxLimit <- MaxLimit_def, Stores <- StoresC, Filters <- Filters_def, SeekTop <- SeekTopC, RangeInclusive <- RangeC
\* path is a history variable: two runs that differ only in it are the same run
View == <<store, flt, pc, stage, allowed, pos, mi, ys, ordered, ans>>
=============================================================================
