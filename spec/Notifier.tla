------------------------------ MODULE Notifier ------------------------------
(***************************************************************************)
(* Cross-worker notification (nostr_relay/notifier.py): every worker holds  *)
(* a TCP connection to the notify server; a worker that accepts an event    *)
(* writes the 32-byte id; the server relays what it reads to every other    *)
(* connection; a worker that reads an id looks the event up and pushes it   *)
(* to its subscribers.                                                      *)
(*                                                                         *)
(* The byte stream is modelled symbol-wise: an id is K symbols <<id, 1>> .. *)
(* <<id, K>>.  The transport may deliver any non-empty prefix of what is    *)
(* in flight (Deliver) - every way a TCP stream can be split or coalesced.  *)
(* The reads are transcribed from the code:                                 *)
(*   Exact = TRUE   reader.readexactly(32): returns K symbols or, at EOF,   *)
(*                  ends the loop (the code as repaired, see                *)
(*                  known_findings.json)                                    *)
(*   Exact = FALSE  reader.read(32): returns whatever is buffered, at most  *)
(*                  K symbols (the code as found)                           *)
(* The contract (C20) is stated over the history of look-ups only.          *)
(***************************************************************************)
EXTENDS Integers, Sequences, FiniteSets, TLC

CONSTANTS Workers,     \* worker processes
          IdsOf,       \* [worker -> sequence of ids it will announce] (distinct ids)
          K,           \* symbols per id
          Exact        \* which read primitive the code uses

VARIABLES todo,        \* [w -> ids still to be announced]
          upnet,       \* [w -> symbols written by w's client, in flight to the server]
          upbuf,       \* [w -> symbols in the server-side StreamReader of w's connection]
          dnnet,       \* [w -> symbols written by the server to w, in flight]
          dnbuf,       \* [w -> symbols in w's client-side StreamReader]
          alive,       \* workers whose connection is up
          looked,      \* [w -> sequence of chunks (sequences of symbols) w looked up as event ids]
          owed,        \* [w -> ids announced by others while w's connection was up and not lost with their sender] (history)
          joins        \* how many connections were opened after the start (history; bounds the exploration)

vars == <<todo, upnet, upbuf, dnnet, dnbuf, alive, looked, owed, joins>>

Sym(i) == [k \in 1..K |-> <<i, k>>]
Range0(q) == {q[x] : x \in DOMAIN q}
Take(s, n) == SubSeq(s, 1, n)
Drop(s, n) == SubSeq(s, n + 1, Len(s))
Min(a, b) == IF a < b THEN a ELSE b

Init == /\ todo = IdsOf
        /\ upnet = [w \in Workers |-> <<>>] /\ upbuf = [w \in Workers |-> <<>>]
        /\ dnnet = [w \in Workers |-> <<>>] /\ dnbuf = [w \in Workers |-> <<>>]
        /\ alive = Workers
        /\ looked = [w \in Workers |-> <<>>]
        /\ owed = [w \in Workers |-> {}] /\ joins = 0

(* NotifyClient.notify: writer.write(event.id_bytes) *)
Announce(w) ==
    /\ w \in alive /\ todo[w] # <<>>
    /\ upnet' = [upnet EXCEPT ![w] = @ \o Sym(Head(todo[w]))]
    /\ todo' = [todo EXCEPT ![w] = Tail(@)]
    /\ owed' = [p \in Workers |-> IF p # w /\ p \in alive THEN owed[p] \cup {Head(todo[w])} ELSE owed[p]]
    /\ UNCHANGED <<upbuf, dnnet, dnbuf, alive, looked, joins>>

(* the transport hands over a non-empty prefix of what is in flight *)
DeliverUp(w, n) ==
    /\ n \in 1..Len(upnet[w])
    /\ upbuf' = [upbuf EXCEPT ![w] = @ \o Take(upnet[w], n)]
    /\ upnet' = [upnet EXCEPT ![w] = Drop(@, n)]
    /\ UNCHANGED <<todo, dnnet, dnbuf, alive, looked, owed, joins>>
DeliverDown(w, n) ==
    /\ n \in 1..Len(dnnet[w])
    /\ dnbuf' = [dnbuf EXCEPT ![w] = @ \o Take(dnnet[w], n)]
    /\ dnnet' = [dnnet EXCEPT ![w] = Drop(@, n)]
    /\ UNCHANGED <<todo, upnet, upbuf, alive, looked, owed, joins>>

\* how many symbols the read primitive returns from a buffer b (0 = it keeps waiting)
ReadLen(b) == IF Exact THEN (IF Len(b) >= K THEN K ELSE 0) ELSE Min(Len(b), K)

(* NotifyServer.handle_notify for w's connection: read, relay the chunk to every other connection *)
ServerRelay(w) ==
    /\ w \in alive
    /\ ReadLen(upbuf[w]) > 0
    /\ LET n == ReadLen(upbuf[w])
           chunk == Take(upbuf[w], n) IN
        /\ upbuf' = [upbuf EXCEPT ![w] = Drop(@, n)]
        /\ dnnet' = [p \in Workers |-> IF p # w /\ p \in alive THEN dnnet[p] \o chunk ELSE dnnet[p]]
    /\ UNCHANGED <<todo, upnet, dnbuf, alive, looked, owed, joins>>

(* NotifyClient.connect loop: read, get_event(data.hex()), notify_all_connected *)
ClientLookup(w) ==
    /\ w \in alive
    /\ ReadLen(dnbuf[w]) > 0
    /\ LET n == ReadLen(dnbuf[w]) IN
        /\ looked' = [looked EXCEPT ![w] = Append(@, Take(dnbuf[w], n))]
        /\ dnbuf' = [dnbuf EXCEPT ![w] = Drop(@, n)]
    /\ UNCHANGED <<todo, upnet, upbuf, dnnet, alive, owed, joins>>

(* a peer goes away mid-stream: its connection is closed, what it had in flight is lost *)
PeerDrop(w) ==
    /\ w \in alive
    /\ alive' = alive \ {w}
    /\ upnet' = [upnet EXCEPT ![w] = <<>>] /\ upbuf' = [upbuf EXCEPT ![w] = <<>>]
    /\ dnnet' = [dnnet EXCEPT ![w] = <<>>] /\ dnbuf' = [dnbuf EXCEPT ![w] = <<>>]
    \* w is owed nothing any more, and what w announced and another worker has not looked up yet may be lost with it
    /\ owed' = [p \in Workers |-> IF p = w THEN {} ELSE owed[p] \ {i \in Range0(IdsOf[w]) : ~\E k \in DOMAIN looked[p] : looked[p][k] = Sym(i)}]
    /\ UNCHANGED <<todo, looked, joins>>

(* a worker (re)connects: a new connection to the server, nothing buffered; it is owed what is announced from now on *)
Join(w) ==
    /\ w \notin alive
    /\ alive' = alive \cup {w}
    /\ joins' = joins + 1
    /\ UNCHANGED <<todo, upnet, upbuf, dnnet, dnbuf, looked, owed>>

Next == \/ \E w \in Workers : Announce(w) \/ ServerRelay(w) \/ ClientLookup(w) \/ PeerDrop(w) \/ Join(w)
        \/ \E w \in Workers, n \in 1..(K * 3) : DeliverUp(w, n) \/ DeliverDown(w, n)

Spec == Init /\ [][Next]_vars

----------------------------------------------------------------------------
(* C20 over the history of look-ups *)

Announced(w) == SubSeq(IdsOf[w], 1, Len(IdsOf[w]) - Len(todo[w]))
Range(s) == {s[i] : i \in DOMAIN s}
IsIdOf(chunk, i) == chunk = Sym(i)
\* every look-up is an intact id that another worker announced: never a fragment, never its own
C20_Intact ==
    \A w \in Workers : \A k \in DOMAIN looked[w] :
        \E v \in Workers \ {w} : \E i \in Range(Announced(v)) : IsIdOf(looked[w][k], i)
\* each id at most once per worker
C20_AtMostOnce ==
    \A w \in Workers : \A k, m \in DOMAIN looked[w] : k # m => looked[w][k] # looked[w][m]
\* per sender, ids are looked up in the order they were announced
C20_SenderOrder ==
    \A w \in Workers : \A v \in Workers \ {w} :
        \A k, m \in DOMAIN looked[w] : k < m =>
            \A a, b \in DOMAIN IdsOf[v] : (IsIdOf(looked[w][k], IdsOf[v][a]) /\ IsIdOf(looked[w][m], IdsOf[v][b])) => a < b
\* when nothing is in flight any more and nobody ever dropped, every worker has looked up everything the others announced
Drained == \A w \in Workers : upnet[w] = <<>> /\ upbuf[w] = <<>> /\ dnnet[w] = <<>> /\ dnbuf[w] = <<>>
C20_AllDelivered ==
    (Drained /\ alive = Workers /\ joins = 0) =>
        \A w \in Workers : \A v \in Workers \ {w} : \A i \in Range(Announced(v)) : \E k \in DOMAIN looked[w] : IsIdOf(looked[w][k], i)
\* with workers coming and going: whoever is connected in the end has looked up everything it is owed - a connection
\* opened or closed by one worker never costs another worker its ids
C20_StayersServed ==
    Drained => \A w \in alive : \A i \in owed[w] : \E k \in DOMAIN looked[w] : IsIdOf(looked[w][k], i)
=============================================================================
