------------------------------ MODULE MC_Auth ------------------------------
(* Exhaustive configuration of Auth.tla: two connections, three keys (one with every role revoked), every payload of the class grammar
   (2 signatures x 2 kinds x 7 ages x relay-tag sequences x challenge-tag sequences), sequences of attempts and probes. *)
EXTENDS Integers, Sequences, FiniteSets, TLC
VARIABLES token, roles, last
RelaySeqs == {<<>>, <<"exact">>, <<"substring">>, <<"superstring">>, <<"foreign">>, <<"exact", "foreign">>, <<"foreign", "exact">>}
ChalSeqs == {<<>>, <<"c1">>, <<"c2">>, <<"none">>, <<"c1", "none">>, <<"c2", "c1">>}
Payloads == [signer : {"A", "B", "C"}, sig : {"ok", "bad"}, kind : {22242, 1}, age : {-601, -600, -599, 0, 599, 600, 601},
             relays : RelaySeqs, chals : ChalSeqs]
INSTANCE Auth WITH Conns <- {"c1", "c2"}, Keys <- {"A", "B", "C"}, RolesOf <- [A |-> {"w"}, B |-> {"r"}, C |-> {}], DefaultRoles <- {"a"},
                   ActionRoles <- [save |-> {"w"}, query |-> {"r", "w"}]
Next == \/ \E c \in {"c1", "c2"}, p \in Payloads, ok \in BOOLEAN : Auth(c, p, ok)
        \/ \E c \in {"c1", "c2"}, act \in {"save", "query"}, al \in BOOLEAN : Probe(c, act, al)
        \/ \E c \in {"c1", "c2"} : Close(c)
        \/ \E k \in {"A", "B", "C"}, rs \in {{}, {"r"}, {"w"}} : SetRoles(k, rs)
Spec == Init /\ [][Next]_vars
View == <<token, roles>>
=============================================================================
