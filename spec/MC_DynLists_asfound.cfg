SPECIFICATION Spec
CONSTANT AsFound = TRUE
CONSTRAINT Bound
INVARIANT C16_NoEmptyWindow
INVARIANT C16_ListExact
CHECK_DEADLOCK FALSE
