SPECIFICATION Spec
CONSTANT AsFound = TRUE
CONSTANT WithStatic = TRUE
CONSTRAINT Bound
INVARIANT C16_NoEmptyWindow
INVARIANT C16_ListExact
CHECK_DEADLOCK FALSE
