--------------------------- MODULE MC_DynLists_ind ---------------------------
(* Apalache wrapper for the inductive invariant of DynLists.tla (repaired refresher): five keys, one static key,
   every subset of the keys as a possible query result. *)
EXTENDS Integers, Sequences, FiniteSets, TLC
VARIABLES
    \* @type: Set(Str);
    allow,
    \* @type: Set(Str);
    old,
    \* @type: Set(Str);
    new,
    \* @type: Str;
    pc,
    \* @type: Set({key: Str, allowed: Bool, old: Set(Str), new: Set(Str), busy: Bool});
    reads
KeysC == {"A", "B", "C", "D", "S"}
INSTANCE DynLists WITH Keys <- KeysC, Static <- {"S"}, Targets <- SUBSET {"A", "B", "C", "D"}, AsFound <- FALSE
\* (Apalache wants every variable assigned from a set before the invariant constrains it; `reads` holds at most the last observation)
IndInit == /\ allow \in SUBSET KeysC /\ old \in SUBSET KeysC /\ new \in SUBSET KeysC
           /\ pc \in {"idle", "computed", "merged"}
           /\ \/ reads = {}
              \/ \E k \in KeysC, al \in BOOLEAN, o \in SUBSET KeysC, n \in SUBSET KeysC, b \in BOOLEAN :
                     reads = {[key |-> k, allowed |-> al, old |-> o, new |-> n, busy |-> b]}
           /\ IndInv
=============================================================================
