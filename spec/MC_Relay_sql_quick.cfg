SPECIFICATION Spec
CONSTANT Backend = "sql"
CONSTRAINT BoundQuick
VIEW View
INVARIANT C13_OneEose
INVARIANT C13_SubLimit
INVARIANT C13_OnlyRegisteredGens
INVARIANT C01_OnlyAccepted
INVARIANT C13_RegisteredIsLive
INVARIANT C03_OnlyAuthenticAccepted
PROPERTY C13_StoredBeforeEose
PROPERTY C13_NoStoredAfterCancel
PROPERTY C13_RefusedKeepsOthers
PROPERTY C05_FanOutExact
PROPERTY C05_PushOnlyByNotify
PROPERTY C05_LiveMatchAgrees
PROPERTY C06_OkMatchesOutcome
CHECK_DEADLOCK FALSE
