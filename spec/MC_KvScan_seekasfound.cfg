SPECIFICATION Spec
CONSTANT StoresC <- Stores_quick
CONSTANT SeekTopC <- SeekAsFound
CONSTANT RangeC <- TRUE
CHECK_DEADLOCK FALSE
INVARIANT KS_WindowInclusive
