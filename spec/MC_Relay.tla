----------------------------- MODULE MC_Relay -----------------------------
(* Exhaustive configuration of Relay.tla: two connections, two subscription ids, three filter lists (kind, tag, one the
   relay will not evaluate), two events, subscription_limit 1, three generations.  History is bounded by the constraint. *)
EXTENDS Integers, Sequences, FiniteSets, TLC
CONSTANT Backend
VARIABLES open, reg, outbox, qtask, eosed, pn, nf, accepted, sent, busy, owes

E(pk, kind, ts, tags) == [pk |-> pk, kind |-> kind, ts |-> ts, tags |-> tags, auth |-> TRUE, exp |-> <<>>]
UniverseDef == [ n1 |-> E("A", 1, 10, << <<"t", "a">> >>), n2 |-> E("B", 7, 20, << <<"t", "a">> >>),
                 fg |-> [E("A", 1, 30, << <<"t", "a">> >>) EXCEPT !.auth = FALSE] ]
F(kinds, tags) == [ids |-> <<>>, authors |-> <<>>, kinds |-> kinds, tags |-> tags, since |-> <<>>, until |-> <<>>, limit |-> <<>>]
FK == F(<<{1}>>, {})
FT == F(<<>>, {<<"t", {"a"}>>})
FBAD == F(<<{}>>, {})
FilterSetsDef == { <<FK>>, <<FT>>, <<FBAD>> }

INSTANCE Relay WITH Universe <- UniverseDef, OneCharNames <- {"t"}, Conns <- {1, 2}, SubIds <- {"s1", "s2"},
                    FilterSets <- FilterSetsDef, SubLimit <- 1, Gens <- 1..2

Bound == /\ \A c \in {1, 2} : Len(sent[c]) <= 2 /\ Len(outbox[c]) <= 2
         /\ Cardinality(accepted) <= 1 /\ nf <= 2
         /\ TLCGet("level") <= 11
BoundQuick == Bound /\ TLCGet("level") <= 8
\* the history of sent frames does not influence behaviour: explore one representative per (state without history, last frame)
View == <<open, reg, outbox, qtask, eosed, pn, nf, accepted, busy, owes, [c \in {1, 2} |-> Len(sent[c])]>>
=============================================================================
