------------------------------- MODULE KvWrite -------------------------------
(***************************************************************************)
(* The LMDB writer's transaction for one event, transcribed from            *)
(* WriterThread.run / _post_save / _delete_event of storage/kv.py, on top   *)
(* of the scanner of KvScan.tla (the writer finds what an event supersedes  *)
(* or deletes by walking an index, exactly as a query does):                *)
(*   add i   nothing if i is stored; else write i's entries, then           *)
(*           - kinds 0, 3, 10000-19999, 30000-39999: walk the author+kind   *)
(*             index until i.ts, delete every other yield (with the same d  *)
(*             value for 30000-39999)                                       *)
(*           - kind 5: walk the author's index until i.ts - 1, delete the   *)
(*             yields that i references by e tags                           *)
(*   del i   clear i's entries                                              *)
(* The state is the set of stored ids (KvIndex.tla relates it to the        *)
(* keyspace; KvScan!Keyspace is its byte-ordered image).                    *)
(* Checked here: the writer refines the store contract for C08 and C09      *)
(* (the same clauses as Store.tla, stated on one writer step).              *)
(***************************************************************************)
EXTENDS Nostr, TLC, SequencesExt

CONSTANTS Universe, PkSym, IdSym, Chars, SeekTop, Submittable

VARIABLES store, lastw

S == INSTANCE KvScan WITH MaxLimit <- 1000, RangeInclusive <- TRUE, Stores <- {}, Filters <- {},
                          flt <- <<>>, ks <- <<>>, pc <- "", stage <- 0, allowed <- <<>>, pos <- 0, mi <- 0, ys <- <<>>,
                          ordered <- TRUE, ans <- <<>>, path <- <<>>

Ev(i) == Universe[i]
SameAddr(x, i) == IsReplaceable(Ev(i)) /\ x # i /\ Addr(Ev(x)) = Addr(Ev(i))

\* _post_save: the ids removed when i has just been written into store (i \in with)
Superseded(with, i) ==
    LET e == Ev(i)
        ksq == S!SortedKeys(with) IN
    IF IsReplaceable(e)
    THEN LET ysq == S!ScanFn(ksq, << S!VAK(e.pk, e.kind) \o <<0>> >>, <<>>, <<e.ts>>) IN
         {x \in ToSet(ysq) : x # i /\ (KClass(e.kind) = "prepl" => DVal(Ev(x)) = DVal(e))}
    ELSE IF IsDelete(e) /\ ERefs(e) # {}
    THEN LET ysq == S!ScanFn(ksq, << S!VAuthor(e.pk) \o <<0>> >>, <<>>, <<e.ts - 1>>) IN
         ToSet(ysq) \cap ERefs(e)
    ELSE {}

Init == store = {} /\ lastw = [op |-> "init"]
Add(i) == /\ store' = IF i \in store THEN store ELSE (store \cup {i}) \ Superseded(store \cup {i}, i)
          /\ lastw' = [op |-> "add", id |-> i, fresh |-> i \notin store]
Del(i) == /\ store' = store \ {i}
          /\ lastw' = [op |-> "del", id |-> i]
Next == \E i \in Submittable : Add(i) \/ Del(i)
Spec == Init /\ [][Next]_<<store, lastw>>

----------------------------------------------------------------------------
Older(St, i) == {x \in St : SameAddr(x, i) /\ Ev(x).ts < Ev(i).ts}
Applied == lastw'.op = "add" /\ lastw'.fresh
\* C08 on a writer step: a deletion removes its referenced own older events and nothing else
A_KW_C08 == (Applied /\ IsDelete(Ev(lastw'.id))) =>
    LET i == lastw'.id IN
    /\ \A x \in store \ store' : x \in ERefs(Ev(i)) /\ Ev(x).pk = Ev(i).pk /\ Ev(x).ts <= Ev(i).ts
    /\ {x \in store : x \in ERefs(Ev(i)) /\ Ev(x).pk = Ev(i).pk /\ Ev(x).ts < Ev(i).ts /\ x # i} \cap store' = {}
\* C09 on a writer step
A_KW_C09 == (Applied /\ ~IsDelete(Ev(lastw'.id))) =>
    LET i == lastw'.id IN
    /\ \A x \in store \ store' : SameAddr(x, i) /\ Ev(x).ts <= Ev(i).ts
    /\ Older(store, i) \cap store' = {}
    /\ (~IsReplaceable(Ev(i)) => store \subseteq store')
    /\ (IsReplaceable(Ev(i)) => (i \in store' \/ \E x \in store' : SameAddr(x, i) /\ Ev(x).ts >= Ev(i).ts))   \* the newest version stays
KW_C08 == [][A_KW_C08]_<<store, lastw>>
KW_C09 == [][A_KW_C09]_<<store, lastw>>
=============================================================================
