------------------------------ MODULE MC_KvWrite ------------------------------
(* Exhaustive configuration of KvWrite.tla: every reachable store over a universe of replaceable versions (ties, other d
   values, neighbours in author and kind), regular events at the edges of a deletion's walk (one second older, same second,
   ids starting 0xff and 0x00, a foreign author) and two deletions. *)
EXTENDS Integers, Sequences, FiniteSets, TLC
E(pk, kind, ts, tags) == [pk |-> pk, kind |-> kind, ts |-> ts, tags |-> tags, auth |-> TRUE, exp |-> <<>>]
Universe_def == [nf |-> E("A", 1, 29, <<>>), n0 |-> E("A", 1, 29, <<>>), ne |-> E("A", 1, 30, <<>>), nb |-> E("B", 1, 29, <<>>),
                 n1 |-> E("A", 1, 1, <<>>),
                 dd |-> E("A", 5, 30, << <<"e", "nf">>, <<"e", "n0">>, <<"e", "ne">>, <<"e", "nb">>, <<"e", "n1">>, <<"e", "r2">> >>),
                 r1 |-> E("A", 10000, 10, <<>>), r2 |-> E("A", 10000, 20, <<>>), r2f |-> E("A", 10000, 20, <<>>),
                 pa |-> E("A", 30000, 10, << <<"d", "a">> >>), pa2 |-> E("A", 30000, 20, << <<"d", "a">> >>),
                 pb |-> E("A", 30000, 5, << <<"d", "b">> >>), pn |-> E("A", 30000, 15, <<>>), pe |-> E("A", 30000, 25, << <<"d">> >>),
                 qa |-> E("B", 30000, 12, << <<"d", "a">> >>)]
OneCharNames_def == {"e", "d"}
PkSym_def == [A |-> 1, B |-> 2]
IdSym_def == [nf |-> 301, n0 |-> 1, ne |-> 302, nb |-> 303, n1 |-> 5, dd |-> 6, r1 |-> 7, r2 |-> 8, r2f |-> 304, pa |-> 9, pa2 |-> 10,
              pb |-> 11, pn |-> 12, pe |-> 13, qa |-> 14]
Chars_def == [e |-> <<101>>, d |-> <<100>>, a |-> <<97>>, b |-> <<98>>, nf |-> <<1>>, n0 |-> <<2>>, ne |-> <<3>>, nb |-> <<4>>, n1 |-> <<5>>, r2 |-> <<6>>]
SeekRepaired == 100000
SeekAsFound == 255
CONSTANT SeekTopC
VARIABLES store, lastw
INSTANCE KvWrite WITH Universe <- Universe_def, OneCharNames <- OneCharNames_def, PkSym <- PkSym_def, IdSym <- IdSym_def, Chars <- Chars_def,
                      SeekTop <- SeekTopC, Submittable <- DOMAIN Universe_def
View == store
Small == Cardinality(store) <= 6
=============================================================================
