--------------------------- MODULE Notifier_Trace ---------------------------
(***************************************************************************)
(* Validation of recorded runs of the real NotifyServer.handle_notify and   *)
(* NotifyClient.connect (wired together by in-memory streams whose          *)
(* chunking follows a TLC behaviour of Notifier.tla) against the contract   *)
(* of C20.  The reads of the real code are eager and not individually       *)
(* observable, so the trace is checked at contract level: lines are         *)
(*   Announce w i      worker w announced id i                              *)
(*   Lookup   w chunk  worker w called storage.get_event on these symbols   *)
(*   Push     w i      worker w pushed event i to its subscribers           *)
(*   Drop     w        worker w's connection went away                      *)
(*   Join     w        worker w opened a new connection                     *)
(*   End               everything in flight has been delivered              *)
(* and the C20 formulas of Notifier.tla are evaluated after every line      *)
(* (C20_AllDelivered at End).                                               *)
(***************************************************************************)
EXTENDS Integers, Sequences, FiniteSets, TLC, Json, TraceData

VARIABLES todo, upnet, upbuf, dnnet, dnbuf, alive, looked, owed, joins, pushed, tid, l, bad

N == INSTANCE Notifier WITH Workers <- TD_Workers, IdsOf <- TD_IdsOf, K <- TD_K, Exact <- TRUE

Trace == Traces[tid]
Line == Trace[l]
Empty == [w \in TD_Workers |-> <<>>]

TraceInit == /\ tid \in DOMAIN Traces /\ l = 1 /\ bad = {}
             /\ todo = TD_IdsOf /\ alive = TD_Workers /\ looked = Empty /\ pushed = Empty
             /\ owed = [w \in TD_Workers |-> {}] /\ joins = 0
             /\ upnet = Empty /\ upbuf = Empty /\ dnnet = Empty /\ dnbuf = Empty

Verdict ==
    (IF N!C20_Intact' THEN {} ELSE {"C20_Intact"})
    \cup (IF N!C20_AtMostOnce' THEN {} ELSE {"C20_AtMostOnce"})
    \cup (IF N!C20_SenderOrder' THEN {} ELSE {"C20_SenderOrder"})
    \* a push happens for exactly the looked-up ids, in the same order
    \cup (IF \A w \in TD_Workers : Len(pushed'[w]) <= Len(looked'[w]) /\
             \A k \in DOMAIN pushed'[w] : looked'[w][k] = N!Sym(pushed'[w][k]) THEN {} ELSE {"C20_PushMatchesLookup"})

TraceNext ==
    /\ l <= Len(Trace)
    /\ UNCHANGED <<upnet, upbuf, dnnet, dnbuf>>
    /\ CASE Line.a = "Announce" -> /\ todo' = [todo EXCEPT ![Line.w] = Tail(@)]
                                   /\ owed' = [p \in TD_Workers |-> IF p # Line.w /\ p \in alive THEN owed[p] \cup {Line.i} ELSE owed[p]]
                                   /\ UNCHANGED <<alive, looked, pushed, joins>>
         [] Line.a = "Lookup"   -> /\ looked' = [looked EXCEPT ![Line.w] = Append(@, Line.chunk)]
                                   /\ UNCHANGED <<todo, alive, pushed, owed, joins>>
         [] Line.a = "Push"     -> /\ pushed' = [pushed EXCEPT ![Line.w] = Append(@, Line.i)]
                                   /\ UNCHANGED <<todo, alive, looked, owed, joins>>
         [] Line.a = "Drop"     -> /\ alive' = alive \ {Line.w}
                                   /\ owed' = [p \in TD_Workers |-> IF p = Line.w THEN {}
                                                ELSE owed[p] \ {i \in N!Range0(TD_IdsOf[Line.w]) : ~\E k \in DOMAIN looked[p] : looked[p][k] = N!Sym(i)}]
                                   /\ UNCHANGED <<todo, looked, pushed, joins>>
         [] Line.a = "Join"     -> /\ alive' = alive \cup {Line.w} /\ joins' = joins + 1
                                   /\ UNCHANGED <<todo, looked, pushed, owed>>
         [] Line.a = "End"      -> UNCHANGED <<todo, alive, looked, pushed, owed, joins>>
    /\ bad' = bad \cup {<<n, l>> : n \in Verdict \cup
                  (IF Line.a = "End" /\ ~(N!C20_AllDelivered /\ \A w \in TD_Workers : Len(pushed[w]) = Len(looked[w]))
                   THEN {"C20_AllDelivered"} ELSE {})
                  \cup (IF Line.a = "End" /\ ~N!C20_StayersServed THEN {"C20_StayersServed"} ELSE {})
                  \cup (IF Line.a = "Announce" /\ (todo[Line.w] = <<>> \/ Head(todo[Line.w]) # Line.i) THEN {"Conform"} ELSE {})}
    /\ l' = l + 1
    /\ tid' = tid
    /\ (l' > Len(Trace)) => PrintT("@@" \o ToJson([tid |-> tid, n |-> Len(Trace), bad |-> bad']))

TraceSpec == TraceInit /\ [][TraceNext]_<<todo, upnet, upbuf, dnnet, dnbuf, alive, looked, owed, joins, pushed, tid, l, bad>>
=============================================================================
