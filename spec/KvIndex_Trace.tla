--------------------------- MODULE KvIndex_Trace ---------------------------
(***************************************************************************)
(* Validation of complete dumps of the storage (LMDB: every key of the      *)
(* environment, decoded; SQL: every row of events and tags) taken after     *)
(* every step of a history, against KvIndex.tla.                            *)
(*   Step   keys          after a committed writer step / add_event / GC    *)
(*   Fault  keys alt      after an add_event during which the engine failed *)
(*                        at the k-th mutation (alt = the dump of the same  *)
(*                        history without the fault)                        *)
(*   Kill   keys alt      after the process was killed at the k-th mutation *)
(*                        and the database reopened                         *)
(*   Probe  id present    a later event submitted after a fault: must be in *)
(* C10: the dump is coherent.  C07: after a fault or kill the dump is       *)
(* exactly the state before the event or exactly the state after it.        *)
(***************************************************************************)
EXTENDS Integers, Sequences, FiniteSets, TLC, Json, TraceData

VARIABLES keys, phase, tid, l, bad

KV == INSTANCE KvIndex WITH Universe <- TD_Universe, OneCharNames <- TD_OneCharNames

Trace == Traces[tid]
Line == Trace[l]

TraceInit == tid \in DOMAIN Traces /\ l = 1 /\ bad = {} /\ keys = (IF TD_Backend = "lmdb" THEN {KV!Sentinel} ELSE {}) /\ phase = KV!IdlePhase

Exp(K) == IF TD_Backend = "lmdb" THEN KV!Expected(K) ELSE KV!ExpectedSql(K)
Coherence(K) ==
    (IF K \ Exp(K) = {} THEN {} ELSE {<<"C10_DanglingEntry", K \ Exp(K)>>})
    \cup (IF Exp(K) \ K = {} THEN {} ELSE {<<"C10_MissingEntry", Exp(K) \ K>>})

TraceNext ==
    /\ l <= Len(Trace)
    /\ UNCHANGED phase
    /\ keys' = IF Line.a = "Probe" THEN keys ELSE Line.keys
    /\ bad' = bad \cup {<<v[1], l, v[2]>> : v \in
                (IF Line.a = "Probe" THEN (IF Line.present THEN {} ELSE {<<"C07_LaterEventsProceed", {Line.id}>>})
                 ELSE Coherence(Line.keys)
                      \* (C17 "... together with all their index entries", C10: no entry outlives its record)
                      \cup (IF KV!EntriesWithoutRecord(Line.keys) = {} THEN {} ELSE {<<"C17_EntryWithoutRecord", KV!EntriesWithoutRecord(Line.keys)>>})
                      \cup (IF Line.a \in {"Fault", "Kill"} /\ Line.keys # keys /\ Line.keys # Line.alt
                            THEN {<<"C07_Atomic", (Line.keys \ keys) \cup (keys \ Line.keys)>>} ELSE {}))}
    /\ l' = l + 1
    /\ tid' = tid
    /\ (l' > Len(Trace)) => PrintT("@@" \o ToJson([tid |-> tid, n |-> Len(Trace), bad |-> bad']))

TraceSpec == TraceInit /\ [][TraceNext]_<<keys, phase, tid, l, bad>>
=============================================================================
