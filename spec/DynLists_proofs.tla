-------------------------- MODULE DynLists_proofs --------------------------
(* Machine-checked (TLAPS) proof that IndInv is an inductive invariant of the repaired refresher (AsFound = FALSE) for
   arbitrary Keys, Static and Targets, and that it implies the two C16 formulas:   tlapm DynLists_proofs.tla
   (Apalache discharges the same obligations symbolically for the constants of MC_DynLists_ind, TLC explores the
   reachable states of MC_DynLists.) *)
EXTENDS DynLists, TLAPS

ASSUME Consts == /\ Static \subseteq Keys
                 /\ \A t \in Targets : t \subseteq Keys
                 /\ AsFound = FALSE

THEOREM InvImpliesC16 == IndInv => (C16_NoEmptyWindow /\ C16_ListExact)
BY DEF IndInv, C16_NoEmptyWindow, C16_ListExact

THEOREM InitEstablishes == Init => IndInv
BY DEF Init, IndInv, Shape

THEOREM StartKeeps == ASSUME NEW t \in Targets, IndInv, Start(t) PROVE IndInv'
BY Consts DEF IndInv, Start, Shape, ReadOK, Full

THEOREM MergeKeeps == (IndInv /\ Merge) => IndInv'
BY DEF IndInv, Merge, Shape, ReadOK

THEOREM TrimKeeps == (IndInv /\ Trim) => IndInv'
BY DEF IndInv, Trim, Shape, ReadOK

THEOREM ReadKeeps == ASSUME NEW k \in Keys, IndInv, Read(k) PROVE IndInv'
BY DEF IndInv, Read, Shape, ReadOK

THEOREM AsFoundStepsDisabled == ~(Clear \/ Update \/ AddInit)
BY Consts DEF Clear, Update, AddInit

THEOREM Consecution == (IndInv /\ [Next]_vars) => IndInv'
<1> SUFFICES ASSUME IndInv, [Next]_vars PROVE IndInv'
  OBVIOUS
<1>1. CASE \E t \in Targets : Start(t)
  BY <1>1, StartKeeps
<1>2. CASE Merge
  BY <1>2, MergeKeeps
<1>3. CASE Trim
  BY <1>3, TrimKeeps
<1>4. CASE \E k \in Keys : Read(k)
  BY <1>4, ReadKeeps
<1>5. CASE UNCHANGED vars
  BY <1>5 DEF IndInv, vars, Shape, ReadOK
<1>6. QED
  BY <1>1, <1>2, <1>3, <1>4, <1>5, AsFoundStepsDisabled DEF Next

THEOREM Safety == Spec => [](C16_NoEmptyWindow /\ C16_ListExact)
<1>1. Init => IndInv
  BY InitEstablishes
<1>2. IndInv /\ [Next]_vars => IndInv'
  BY Consecution
<1>3. IndInv => (C16_NoEmptyWindow /\ C16_ListExact)
  BY InvImpliesC16
<1>4. QED
  BY <1>1, <1>2, <1>3, PTL DEF Spec
=============================================================================
