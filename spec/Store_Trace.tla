---------------------------- MODULE Store_Trace ----------------------------
(***************************************************************************)
(* Validation of recorded executions of the real storage classes against    *)
(* Store.tla (and of every query answer against Query.tla).                 *)
(*                                                                         *)
(* Traces is a sequence of traces; a trace is a sequence of lines, one per  *)
(* observed action, carrying the action's arguments, its reply and the      *)
(* complete projected state after it (stored ids, writer queue, ids newly   *)
(* handed to the fan-out).  Because the projection is complete, a line is   *)
(* explained by the specification iff the Store action, evaluated as a      *)
(* predicate on <<state before, state logged>>, is true; no search over     *)
(* hidden variables is needed and validation is linear in the trace.        *)
(*                                                                         *)
(* A line that no action explains does not stop the trace: the logged       *)
(* state is adopted, "Conform" is recorded for that line together with the  *)
(* names of all property bodies (A_Cxx of Store.tla, clauses of Query.tla)  *)
(* that the step violates, and validation continues, so the rest of the     *)
(* trace is still examined.  The verdict of each trace is printed as JSON   *)
(* when its last line has been consumed.                                    *)
(*                                                                         *)
(* Line formats (field a = action):                                         *)
(*  Submit  id ok post q bc [auth_obs]  an EVENT / add_event call (auth_obs: *)
(*                                   the event was built by the relay itself *)
(*                                   - add_service_event - and this is the   *)
(*                                   oracle's verdict on what it built)      *)
(*  Writer  post q                   one writer transaction                  *)
(*  Gc      T post q                 a collection pass                       *)
(*  Delete  id post q                storage.delete_event                    *)
(*  Crash   post                     process killed and store reopened       *)
(*  Load    seq full post            cli `load` of a dump, store reopened    *)
(*  Fault   id post q bc             Submit during which the engine failed   *)
(*  Query   fs res [fault]           a REQ's stored answer (fault = k: the   *)
(*                                   engine failed at the k-th fetch)        *)
(*  Get     id found got via         get_event / GET /e/<id> (via = store|http)*)
(***************************************************************************)
EXTENDS Integers, Sequences, FiniteSets, TLC, Json

CONSTANTS Universe, OneCharNames, Backend, PolicyRefused, MaxLimit, Traces

VARIABLES store, wq, bcast, last,   \* Store.tla
          tid, l, bad                \* trace id, next line, verdict so far: set of <<name, line, ids>>

S == INSTANCE Store WITH GcTimes <- {}

svars == <<store, wq, bcast, last>>

Trace == Traces[tid]
Line == Trace[l]

Range(s) == {s[i] : i \in DOMAIN s}
KnownIds(X) == X \subseteq DOMAIN Universe
WqIds(q) == {q[k][2] : k \in DOMAIN q}

TraceInit ==
    /\ tid \in DOMAIN Traces
    /\ l = 1
    /\ bad = {}
    /\ S!Init

\* bind the primed Store variables to what was observed
Adopt(ln) ==
    /\ store' = ln.post
    /\ wq' = (IF "q" \in DOMAIN ln THEN ln.q ELSE <<>>)
    /\ bcast' = (IF "bc" \in DOMAIN ln THEN bcast \o ln.bc ELSE IF ln.a = "Crash" THEN <<>> ELSE bcast)
    /\ last' = CASE ln.a = "Submit" -> [act |-> "Submit", id |-> ln.id, ok |-> ln.ok]
                 [] ln.a = "Fault"  -> [act |-> "Submit", id |-> ln.id, ok |-> FALSE]
                 [] ln.a = "Writer" -> (IF wq # <<>> THEN [act |-> "Writer", op |-> Head(wq)[1], id |-> Head(wq)[2]]
                                        ELSE [act |-> "Writer", op |-> "none", id |-> "none"])
                 [] ln.a = "Gc"     -> [act |-> "Gc", T |-> ln.T]
                 [] ln.a = "Delete" -> [act |-> "Delete", id |-> ln.id]
                 [] ln.a = "Crash"  -> [act |-> "Crash"]
                 [] ln.a = "Load"   -> [act |-> "Load", seq |-> ln.seq]

\* does the specification's action explain the adopted step?
Conforms(ln) ==
    CASE ln.a = "Submit" -> S!Submit(ln.id, ln.ok)
      [] ln.a = "Writer" -> S!WriterStep
      [] ln.a = "Gc"     -> S!Gc(ln.T)
      [] ln.a = "Delete" -> S!Delete(ln.id)
      [] ln.a = "Crash"  -> S!Crash
         \* a load that ran to its end, or (full = FALSE: the command died on an event it could not digest) a prefix of it
      [] ln.a = "Load"   -> /\ wq = <<>>
                            /\ IF ln.full THEN store' \in S!LoadPosts(store, ln.seq)
                               ELSE \E n \in 0..(Len(ln.seq) - 1) : store' \in S!LoadPosts(store, SubSeq(ln.seq, 1, n))
         \* an engine failure inside a Submit: the event is either not applied at all (and was
         \* then neither acknowledged as stored nor broadcast) or applied completely
      [] ln.a = "Fault"  -> \/ UNCHANGED <<store, wq>> /\ bcast' = bcast
                            \/ S!Submit(ln.id, TRUE)

Garbage(ln) == ~KnownIds(ln.post) \/ ("q" \in DOMAIN ln /\ ~KnownIds(WqIds(ln.q)))
                \/ ("bc" \in DOMAIN ln /\ ~KnownIds(Range(ln.bc)))

Mutating(ln) == ln.a \in {"Submit", "Writer", "Gc", "Delete", "Crash", "Fault", "Load"}

MutStep ==
    /\ Mutating(Line)
    /\ IF Garbage(Line)
       THEN /\ bad' = bad \cup {<<"Garbage", l, {}>>}
            /\ store' = Line.post \cap DOMAIN Universe
            /\ UNCHANGED <<wq, bcast, last>>
       ELSE /\ Adopt(Line)
            /\ bad' = bad \cup {<<v[1], l, v[2]>> : v \in (IF Conforms(Line) THEN {} ELSE {<<"Conform", S!SubjectOfStep>>})
                                                       \cup (IF Line.a = "Fault" THEN {} ELSE S!StepVerdict)
                                                       \* an internal service event (built and signed by the relay itself, then submitted
                                                       \* like any other): what the relay built must be authentic to the oracle
                                                       \cup (IF "auth_obs" \in DOMAIN Line /\ ~Line.auth_obs
                                                             THEN {<<"C03_ServiceEventAuthentic", {Line.id}>>} ELSE {})}

Q == INSTANCE Query

QueryStep ==
    /\ Line.a = "Query"
    /\ UNCHANGED svars
    /\ bad' = bad \cup {<<n, l, {}>> : n \in
              IF ~KnownIds(Range(Line.res)) THEN {"Garbage"}
              ELSE (IF "fault" \in DOMAIN Line THEN Q!FaultedVerdict(store, Line.fs, Line.res) ELSE Q!QueryVerdict(store, Line.fs, Line.res))
                   \* (a marker, not a property: the SQL answer is not what the single-statement semantics produce)
                   \cup (IF Backend = "sql" /\ ~Q!SqlModel(store, Line.fs, Line.res) THEN {"SqlModelDeviation"} ELSE {})}

GetStep ==
    /\ Line.a = "Get"
    /\ UNCHANGED svars
    /\ LET got == IF "got" \in DOMAIN Line THEN Line.got ELSE IF Line.found THEN Line.id ELSE "none"
       IN bad' = bad \cup {<<n, l, {Line.id}>> : n \in
                    (IF Line.found = (Line.id \in store) /\ S!A_C08_GetAgrees(store, Line.id, got) THEN {} ELSE {"C08_GetAgrees"})
                    \cup (IF S!A_C04_LookupVerbatim(Line.id, got) THEN {} ELSE {"C04_LookupVerbatim"})}

TraceNext ==
    /\ l <= Len(Trace)
    /\ (MutStep \/ QueryStep \/ GetStep)
    /\ l' = l + 1
    /\ tid' = tid
    /\ (l' > Len(Trace)) => PrintT("@@" \o ToJson([tid |-> tid, n |-> Len(Trace), bad |-> bad']))

TraceSpec == TraceInit /\ [][TraceNext]_<<svars, tid, l, bad>>

=============================================================================
