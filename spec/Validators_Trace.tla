-------------------------- MODULE Validators_Trace --------------------------
(* Each line is one submission through a storage configured with a validator pipeline:
   [pipe, e (attributes), ok, reason (set of validator names the message can come from), stored, bcast];
   TLC evaluates Validators.tla Verdict on it.  The configuration is TD_ValCfg. *)
EXTENDS Integers, Sequences, FiniteSets, TLC, Json, TraceData
VARIABLES tid, l, bad
V == INSTANCE Validators
Trace == Traces[tid]
Line == Trace[l]
TraceInit == tid \in DOMAIN Traces /\ l = 1 /\ bad = {}
TraceNext ==
    /\ l <= Len(Trace)
    /\ bad' = bad \cup {<<n, l>> : n \in V!Verdict(Line.pipe, Line.e, TD_ValCfg, Line.ok, Line.reason, Line.stored, Line.bcast)}
    /\ l' = l + 1 /\ tid' = tid
    /\ (l' > Len(Trace)) => PrintT("@@" \o ToJson([tid |-> tid, n |-> Len(Trace), bad |-> bad']))
TraceSpec == TraceInit /\ [][TraceNext]_<<tid, l, bad>>
=============================================================================
