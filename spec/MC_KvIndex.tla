---------------------------- MODULE MC_KvIndex ----------------------------
(* Exhaustive configuration of KvIndex.tla: events with duplicate tags, a bare tag, a non-indexable tag name,
   replaceable versions and a deletion; every transaction can fail at every operation. *)
EXTENDS Integers, Sequences, FiniteSets, TLC
VARIABLES keys, phase
E(pk, kind, ts, tags) == [pk |-> pk, kind |-> kind, ts |-> ts, tags |-> tags, auth |-> TRUE, exp |-> <<>>]
UniverseDef ==
  [ n1 |-> E("A", 1, 10, << <<"t", "a">>, <<"t", "a">>, <<"t", "ab">>, <<"t">>, <<"long", "x">> >>),
    r1 |-> E("A", 10000, 10, << <<"t", "a">> >>),
    r2 |-> E("A", 10000, 20, << <<"e", "n1">> >>),
    d1 |-> E("A", 5, 30, << <<"e", "n1">>, <<"e", "r2">> >>) ]
INSTANCE KvIndex WITH Universe <- UniverseDef, OneCharNames <- {"t", "e"}
=============================================================================
