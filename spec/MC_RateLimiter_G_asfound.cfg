SPECIFICATION SpecAsFound
CONSTANT MaxArrivals = 3
CONSTANT Which = "G"
CONSTRAINT Bound
INVARIANT C18_WindowBound
INVARIANT C18_NoOverBlock
INVARIANT C18_Exempt
INVARIANT C18_StateBounded
CHECK_DEADLOCK FALSE
