------------------------------- MODULE Store -------------------------------
(***************************************************************************)
(* The storage contract of the relay, for both backends.                    *)
(*                                                                         *)
(*   store   the set of ids durably stored (SQL table `events` / LMDB      *)
(*           primary records)                                               *)
(*   wq      pending operations of the LMDB writer thread (always empty    *)
(*           on SQL): add_event acknowledges first, the write comes later  *)
(*   bcast   history: ids handed to the live fan-out, in order              *)
(*   last    history: the last action with its arguments and its reply      *)
(*                                                                         *)
(* One action per critical section of the code:                            *)
(*   Submit      DBStorage.add_event / LMDBStorage.add_event               *)
(*   WriterStep  one iteration of kv.WriterThread.run (one LMDB txn)       *)
(*   Gc          QueryGarbageCollector.collect / KVGarbageCollector.collect*)
(*   Delete      storage.delete_event (service path)                       *)
(*   Crash       process death: queued but unwritten operations are lost   *)
(*   Load        cli `load`: a dump pushed through add_event, end observed *)
(*   (look-ups by id - get_event, GET /e/<id> - are reads, see LookupOK)   *)
(* Every action is a relation with exactly the freedom the property        *)
(* statements grant ("equal timestamps may be resolved either way", ...).  *)
(***************************************************************************)
EXTENDS Nostr, TLC

CONSTANTS Universe,        \* function: id symbol -> event record (see Nostr)
          Backend,         \* "sql" or "lmdb"
          PolicyRefused,   \* ids the configured validators / roles refuse (besides non-authentic ones)
          GcTimes          \* clock values at which a collection may run (offsets, like ts)

VARIABLES store, wq, bcast, last

vars == <<store, wq, bcast, last>>

Ev(i) == Universe[i]
Ids == DOMAIN Universe

Admissible(i) == Ev(i).auth /\ i \notin PolicyRefused
\* An authentic event that is malformed in a way the validators do not look at (a deletion whose e reference is not an
\* id, an expiration tag without a value) is not "well-formed": the relay may refuse it - and then it leaves no trace -
\* or accept it like any other.  The flag is set by the universe (an oracle independent of the relay), default FALSE.
Dubious(i) == "dub" \in DOMAIN Ev(i) /\ Ev(i).dub

----------------------------------------------------------------------------
(* what applying an accepted event may and must do to the store *)

SameAddr(x, i) == IsReplaceable(Ev(i)) /\ x # i /\ Addr(Ev(x)) = Addr(Ev(i))
Older(S, i)    == {x \in S : SameAddr(x, i) /\ Ev(x).ts < Ev(i).ts}
SameTs(S, i)   == {x \in S : SameAddr(x, i) /\ Ev(x).ts = Ev(i).ts}
NotOlder(S, i) == {x \in S : SameAddr(x, i) /\ Ev(x).ts >= Ev(i).ts}
OwnRefs(S, i)  == {x \in S : IsDelete(Ev(i)) /\ x # i /\ x \in ERefs(Ev(i)) /\ Ev(x).pk = Ev(i).pk}

MustRemove(S, i) == Older(S, i) \cup {x \in OwnRefs(S, i) : Ev(x).ts < Ev(i).ts}
MayRemove(S, i)  == Older(S, i) \cup SameTs(S, i) \cup OwnRefs(S, i)
\* the event itself is kept, except that an ephemeral event need not be stored and a
\* replaceable event may be dropped when a not-older version of its address remains stored
Explained(S, i) == i \in S \/ IsEph(Ev(i)) \/ NotOlder(S, i) # {}

AllowedPost(S, i) ==
    IF i \in S THEN {S}
    ELSE {P \in {(S \ R) \cup K : R \in {X \in SUBSET MayRemove(S, i) : MustRemove(S, i) \subseteq X},
                                  K \in {{i}, {}}} : Explained(P, i)}

Expired(e, T) == Has(e.exp) /\ e.exp[1] = "n" /\ e.exp[2] < T
GcVictims(S, T) == {x \in S : IsEph(Ev(x)) \/ Expired(Ev(x), T)}
GcPost(S, T) == S \ GcVictims(S, T)

PendingOf(q) == {q[k][2] : k \in {m \in DOMAIN q : q[m][1] = "add"}}
Pending == PendingOf(wq)

----------------------------------------------------------------------------
Init == /\ store = {}
        /\ wq = <<>>
        /\ bcast = <<>>
        /\ last = [act |-> "Init"]

(* An EVENT (or a direct add_event call) for id i answered with OK = ok *)
Refuse(i, ok) ==
    /\ ~Admissible(i) \/ Dubious(i)
    /\ ok = FALSE
    /\ UNCHANGED <<store, wq, bcast>>

Duplicate(i, ok) ==         \* resubmission: nothing changes, nothing is broadcast, either answer
    /\ Admissible(i)
    /\ i \in store \cup Pending
    /\ ok \in BOOLEAN
    /\ UNCHANGED <<store, wq, bcast>>

AcceptSql(i, ok) ==
    /\ Backend = "sql"
    /\ Admissible(i) /\ i \notin store
    /\ ok = TRUE
    /\ store' \in AllowedPost(store, i)
    /\ bcast' = Append(bcast, i)
    /\ UNCHANGED wq

AcceptLmdb(i, ok) ==         \* an event that is queued but not yet stored may be accepted (and announced) again
    /\ Backend = "lmdb"
    /\ Admissible(i) /\ i \notin store
    /\ ok = TRUE
    /\ wq' = IF IsEph(Ev(i)) THEN wq ELSE Append(wq, <<"add", i>>)
    /\ bcast' = Append(bcast, i)
    /\ UNCHANGED store

Submit(i, ok) ==
    /\ (Refuse(i, ok) \/ Duplicate(i, ok) \/ AcceptSql(i, ok) \/ AcceptLmdb(i, ok))
    /\ last' = [act |-> "Submit", id |-> i, ok |-> ok]

(* one transaction of the LMDB writer thread *)
WriterStep ==
    /\ wq # <<>>
    /\ LET op == Head(wq) IN
        /\ \/ op[1] = "add" /\ store' \in AllowedPost(store, op[2])
           \/ op[1] = "del" /\ store' = store \ {op[2]}
        /\ last' = [act |-> "Writer", op |-> op[1], id |-> op[2]]
    /\ wq' = Tail(wq)
    /\ UNCHANGED bcast

\* all stores the writer can reach by working off a queue q from S
RECURSIVE DrainPosts(_, _)
DrainPosts(S, q) ==
    IF q = <<>> THEN {S}
    ELSE LET op == Head(q)
             nexts == IF op[1] = "add" THEN AllowedPost(S, op[2]) ELSE {S \ {op[2]}}
         IN UNION {DrainPosts(N, Tail(q)) : N \in nexts}

(* a garbage-collection pass at time T *)
Gc(T) ==
    /\ \/ Backend = "sql" /\ store' = GcPost(store, T) /\ UNCHANGED wq
       \/ Backend = "lmdb" /\ UNCHANGED store
          /\ \E order \in {s \in [1..Cardinality(GcVictims(store, T)) -> GcVictims(store, T)] :
                             \A a, b \in DOMAIN s : a # b => s[a] # s[b]} :
                wq' = wq \o [k \in DOMAIN order |-> <<"del", order[k]>>]
    /\ last' = [act |-> "Gc", T |-> T]
    /\ UNCHANGED bcast

(* storage.delete_event(id): internal service path *)
Delete(i) ==
    /\ \/ Backend = "sql" /\ store' = store \ {i} /\ UNCHANGED wq
       \/ Backend = "lmdb" /\ wq' = Append(wq, <<"del", i>>) /\ UNCHANGED store
    /\ last' = [act |-> "Delete", id |-> i]
    /\ UNCHANGED bcast

(* Bulk load (cli `load`): the events of a dump go through add_event one after the other, nobody reads the answers, and   *)
(* the writer has drained when the command returns.  Only the store at the end is observed: it is one of the stores that   *)
(* the Submit / WriterStep steps of the single events can produce.  Not part of Next (a configuration adds it for chosen   *)
(* sequences, see MC_Store!SpecL); the trace specification uses it to judge a recorded load.                               *)
RECURSIVE LoadPosts(_, _)
LoadPosts(S, seq) ==
    IF seq = <<>> THEN {S}
    ELSE LET i == Head(seq)
             nexts == IF ~Admissible(i) \/ i \in S THEN {S}
                      ELSE AllowedPost(S, i) \cup (IF Dubious(i) THEN {S} ELSE {})
         IN UNION {LoadPosts(N, Tail(seq)) : N \in nexts}
Load(seq) ==
    /\ wq = <<>>
    /\ store' \in LoadPosts(store, seq)
    /\ last' = [act |-> "Load", seq |-> seq]
    /\ UNCHANGED <<wq, bcast>>

(* process death and restart: committed state survives, the queue does not *)
Crash ==
    /\ wq' = <<>>
    /\ bcast' = <<>>
    /\ last' = [act |-> "Crash"]
    /\ UNCHANGED store

Next == \/ \E i \in Ids, ok \in BOOLEAN : Submit(i, ok)
        \/ WriterStep
        \/ \E T \in GcTimes : Gc(T)
        \/ Crash

Spec == Init /\ [][Next]_vars

\* Look-ups by id (storage.get_event, HTTP GET /e/<id>) are reads: they change nothing and answer with the stored
\* event itself - the event that was accepted, field for field - or with nothing ("none").  `got` is what the look-up
\* produced, projected by equality in all seven fields ("?..." = something that equals no accepted event).
GetAnswer(S, i) == IF i \in S THEN i ELSE "none"
LookupOK(S, i, got) == got = GetAnswer(S, i)
A_C04_LookupVerbatim(i, got) == got \in {i, "none"}            \* whatever is served under an id is that very event
A_C08_GetAgrees(S, i, got)   == (got = "none") <=> (i \notin S)  \* served iff stored (a removed event is not served)

----------------------------------------------------------------------------
(* Properties.  They are stated independently of the actions above.  Each  *)
(* is an invariant or an action property [][A_Cxx]_vars whose body A_Cxx is *)
(* named so that the trace specification can evaluate it on every step of   *)
(* every recorded execution of the real code.  TLC checks Spec => Cxx on    *)
(* the exhaustive configuration (MC_Store).                                 *)

Applied(i) == \/ last'.act = "Submit" /\ last'.id = i /\ Backend = "sql" /\ last'.ok = TRUE
              \/ last'.act = "Writer" /\ last'.op = "add" /\ last'.id = i
Submitted(i) == last'.act = "Submit" /\ last'.id = i

\* C03: only authentic events are stored, queued or forwarded
OnlyAuthentic(S, q, b) == \A i \in S \cup PendingOf(q) \cup Range(b) : Ev(i).auth
C03_OnlyAuthentic == OnlyAuthentic(store, wq, bcast)
\* C16 / C14 at this level: nothing a policy refuses is stored, queued or forwarded
FailClosed(S, q, b) == \A i \in S \cup PendingOf(q) \cup Range(b) : i \notin PolicyRefused
C16_PolicyFailClosed == FailClosed(store, wq, bcast)

\* C06: acknowledgements
A_C06_RefusedLeavesNoTrace ==
    \A i \in Ids : (Submitted(i) /\ last'.ok = FALSE) => UNCHANGED <<store, wq, bcast>>
A_C06_AdmissibleNotRefused ==
    \A i \in Ids : (Submitted(i) /\ Admissible(i) /\ ~Dubious(i) /\ i \notin store \cup Pending) => last'.ok = TRUE
A_C06_DuplicateChangesNothing ==
    \A i \in Ids : (Submitted(i) /\ i \in store) => UNCHANGED <<store, wq, bcast>>
\* OK=true => afterwards retrievable, or ephemeral (and broadcast), or superseded by a not-older version
A_C06_AckedIsRetrievable == \A i \in Ids : Applied(i) => Explained(store', i)
A_C06_AckedIsQueuedOrStored ==
    \A i \in Ids : (Submitted(i) /\ last'.ok = TRUE) =>
        \/ i \in store' \/ i \in {wq'[k][2] : k \in {m \in DOMAIN wq' : wq'[m][1] = "add"}}
        \/ IsEph(Ev(i)) \/ NotOlder(store', i) # {}
A_C06_BroadcastOncePerAccept ==
    /\ Len(bcast') <= Len(bcast) + 1
    /\ Len(bcast') = Len(bcast) + 1 =>
          /\ last'.act = "Submit" /\ last'.ok = TRUE
          /\ bcast' = Append(bcast, last'.id)
          /\ last'.id \notin store

\* C07: every step changes the durable store by one complete application or not at all
A_C07_Atomic ==
    \/ store' = store
    \/ \E i \in Ids : Applied(i) /\ store' \in AllowedPost(store, i)
    \/ last'.act = "Gc" /\ store' = GcPost(store, last'.T)
    \/ last'.act \in {"Writer", "Delete"} /\ \E i \in Ids : store' = store \ {i}
    \/ last'.act = "Load" /\ \E n \in 0..Len(last'.seq) :               \* a sequence of complete applications
                                store' \in LoadPosts(store, SubSeq(last'.seq, 1, n))

\* C08: a deletion removes own referenced events (at least the older ones) and nothing else
A_C08_OnlyAuthorDeletes ==
    \A i \in Ids : (Applied(i) /\ IsDelete(Ev(i)) /\ i \notin store) =>
        /\ store \ store' \subseteq {x \in Ids : x \in ERefs(Ev(i)) /\ Ev(x).pk = Ev(i).pk}
        /\ {x \in store : x \in ERefs(Ev(i)) /\ Ev(x).pk = Ev(i).pk /\ Ev(x).ts < Ev(i).ts /\ x # i} \cap store' = {}

\* C09: replaceable events
A_C09_Replaceable ==
    \A i \in Ids : (Applied(i) /\ ~IsDelete(Ev(i)) /\ i \notin store) =>
        /\ \A x \in store \ store' : SameAddr(x, i) /\ Ev(x).ts <= Ev(i).ts   \* same address only, never a newer one
        /\ Older(store, i) \cap store' = {}                                    \* every older version goes
        /\ (~IsReplaceable(Ev(i)) => store \subseteq store')                   \* regular events remove nothing
        \* "never removes the newest version of any address", the incoming one included: afterwards the address holds
        \* the event itself or a version that is not older
        /\ (IsReplaceable(Ev(i)) => (i \in store' \/ NotOlder(store', i) # {}))

\* C09, "never removes the newest version of any address": least of all an event that is then refused - a refused
\* submission removes nothing (the same step seen from C06 is RefusedLeavesNoTrace)
A_C09_RefusedKeepsVersions == (last'.act = "Submit" /\ last'.ok = FALSE) => store \subseteq store'

\* C17: a collection removes exactly the ephemeral and the expired
A_C17_GcExact ==
    last'.act = "Gc" =>
        \/ Backend = "sql" /\ store' = GcPost(store, last'.T)
        \/ /\ Backend = "lmdb" /\ store' = store
           /\ Len(wq') >= Len(wq) /\ SubSeq(wq', 1, Len(wq)) = wq
           /\ \A k \in (Len(wq) + 1)..Len(wq') : wq'[k][1] = "del"
           /\ {wq'[k][2] : k \in (Len(wq) + 1)..Len(wq')} = GcVictims(store, last'.T)

C06_RefusedLeavesNoTrace    == [][A_C06_RefusedLeavesNoTrace]_vars
C06_AdmissibleNotRefused    == [][A_C06_AdmissibleNotRefused]_vars
C06_DuplicateChangesNothing == [][A_C06_DuplicateChangesNothing]_vars
C06_AckedIsRetrievable      == [][A_C06_AckedIsRetrievable]_vars
C06_AckedIsQueuedOrStored   == [][A_C06_AckedIsQueuedOrStored]_vars
C06_BroadcastOncePerAccept  == [][A_C06_BroadcastOncePerAccept]_vars
C07_Atomic                  == [][A_C07_Atomic]_vars
C08_OnlyAuthorDeletes       == [][A_C08_OnlyAuthorDeletes]_vars
C09_Replaceable             == [][A_C09_Replaceable]_vars
C09_RefusedKeepsVersions    == [][A_C09_RefusedKeepsVersions]_vars
C17_GcExact                 == [][A_C17_GcExact]_vars

\* the action-property bodies violated by the step (state, state'), each with the ids it is about
\* (for diagnostics and for telling a recorded known finding from a new violation)
SubjectOfStep == IF last'.act \in {"Submit", "Writer", "Delete"} THEN {last'.id} ELSE {}
GcOffenders == IF last'.act = "Gc"
               THEN LET want == GcPost(store, last'.T)
                        got == IF Backend = "sql" THEN store'
                               ELSE store \ {wq'[k][2] : k \in {m \in DOMAIN wq' : m > Len(wq) /\ wq'[m][1] = "del"}}
                    IN (want \ got) \cup (got \ want)
               ELSE {}
ReplOffenders == UNION {(IF Applied(i) /\ i \notin store
                         THEN {x \in store \ store' : ~(x \in MayRemove(store, i))} \cup (MustRemove(store, i) \cap store')
                         ELSE {}) : i \in Ids}
StepVerdict ==
    (IF A_C06_RefusedLeavesNoTrace THEN {} ELSE {<<"C06_RefusedLeavesNoTrace", SubjectOfStep>>})
    \cup (IF A_C06_AdmissibleNotRefused THEN {} ELSE {<<"C06_AdmissibleNotRefused", SubjectOfStep>>})
    \cup (IF A_C06_DuplicateChangesNothing THEN {} ELSE {<<"C06_DuplicateChangesNothing", SubjectOfStep>>})
    \cup (IF A_C06_AckedIsRetrievable THEN {} ELSE {<<"C06_AckedIsRetrievable", SubjectOfStep>>})
    \cup (IF A_C06_AckedIsQueuedOrStored THEN {} ELSE {<<"C06_AckedIsQueuedOrStored", SubjectOfStep>>})
    \cup (IF A_C06_BroadcastOncePerAccept THEN {} ELSE {<<"C06_BroadcastOncePerAccept", SubjectOfStep>>})
    \cup (IF A_C07_Atomic THEN {} ELSE {<<"C07_Atomic", SubjectOfStep>>})
    \cup (IF A_C08_OnlyAuthorDeletes THEN {} ELSE {<<"C08_OnlyAuthorDeletes", ReplOffenders>>})
    \cup (IF A_C09_Replaceable THEN {} ELSE {<<"C09_Replaceable", ReplOffenders>>})
    \cup (IF A_C09_RefusedKeepsVersions THEN {} ELSE {<<"C09_RefusedKeepsVersions", store \ store'>>})
    \cup (IF A_C17_GcExact THEN {} ELSE {<<"C17_GcExact", GcOffenders>>})
    \cup (IF OnlyAuthentic(store', wq', bcast') THEN {} ELSE {<<"C03_OnlyAuthentic", SubjectOfStep>>})
    \cup (IF FailClosed(store', wq', bcast') THEN {} ELSE {<<"C16_PolicyFailClosed", SubjectOfStep>>})

=============================================================================
