SPECIFICATION Spec
CONSTANT SeekTopC <- SeekAsFound
VIEW View
PROPERTY KW_C08
PROPERTY KW_C09
CHECK_DEADLOCK FALSE
CONSTRAINT Small
