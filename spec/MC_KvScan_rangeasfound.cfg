SPECIFICATION Spec
CONSTANT StoresC <- Stores_quick
CONSTANT SeekTopC <- SeekRepaired
CONSTANT RangeC <- FALSE
CHECK_DEADLOCK FALSE
INVARIANT KS_WindowInclusive
