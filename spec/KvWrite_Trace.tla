----------------------------- MODULE KvWrite_Trace -----------------------------
(***************************************************************************)
(* Binding of KvWrite.tla to WriterThread.run of storage/kv.py.  A line is  *)
(*   [pre, op, id, post]                                                    *)
(* one write transaction of the real writer (driven synchronously by the    *)
(* harness): the stored ids before, the queued operation it took ("add" /   *)
(* "del" of an event) and the stored ids after, all dumped from the LMDB    *)
(* environment.  TLC computes the transcription's outcome for (pre, op, id) *)
(* and compares ("Conform"), and evaluates the C08 / C09 clauses on the     *)
(* recorded step itself.                                                    *)
(***************************************************************************)
EXTENDS Integers, Sequences, FiniteSets, TLC, Json, TraceData

VARIABLES tid, l, bad

store == Traces[tid][l].pre
lastw == [op |-> "x"]
W == INSTANCE KvWrite WITH Universe <- TD_Universe, OneCharNames <- TD_OneCharNames, PkSym <- TD_PkSym, IdSym <- TD_IdSym,
                           Chars <- TD_Chars, SeekTop <- 100000, Submittable <- DOMAIN TD_Universe
N == INSTANCE Nostr WITH OneCharNames <- TD_OneCharNames
Ev(i) == TD_Universe[i]
Line == Traces[tid][l]

Expected(ln) == IF ln.op = "add"
                THEN IF ln.id \in ln.pre THEN ln.pre ELSE (ln.pre \cup {ln.id}) \ W!Superseded(ln.pre \cup {ln.id}, ln.id)
                ELSE ln.pre \ {ln.id}

C08Holds(ln) == LET i == ln.id IN
    /\ \A x \in ln.pre \ ln.post : x \in N!ERefs(Ev(i)) /\ Ev(x).pk = Ev(i).pk /\ Ev(x).ts <= Ev(i).ts
    /\ {x \in ln.pre : x \in N!ERefs(Ev(i)) /\ Ev(x).pk = Ev(i).pk /\ Ev(x).ts < Ev(i).ts /\ x # i} \cap ln.post = {}
C09Holds(ln) == LET i == ln.id IN
    /\ \A x \in ln.pre \ ln.post : W!SameAddr(x, i) /\ Ev(x).ts <= Ev(i).ts
    /\ {x \in ln.pre : W!SameAddr(x, i) /\ Ev(x).ts < Ev(i).ts} \cap ln.post = {}
    /\ (~N!IsReplaceable(Ev(i)) => ln.pre \subseteq ln.post)
    /\ (N!IsReplaceable(Ev(i)) => (i \in ln.post \/ \E x \in ln.post : W!SameAddr(x, i) /\ Ev(x).ts >= Ev(i).ts))

Verdict(ln) ==
    (IF ln.post = Expected(ln) THEN {} ELSE {"Conform"})
    \cup (IF ln.op = "add" /\ ln.id \notin ln.pre /\ N!IsDelete(Ev(ln.id)) /\ ~C08Holds(ln) THEN {"C08_OnlyAuthorDeletes"} ELSE {})
    \cup (IF ln.op = "add" /\ ln.id \notin ln.pre /\ ~N!IsDelete(Ev(ln.id)) /\ ~C09Holds(ln) THEN {"C09_Replaceable"} ELSE {})

TraceInit == tid \in DOMAIN Traces /\ l = 1 /\ bad = {}
TraceNext == /\ l <= Len(Traces[tid])
             /\ bad' = bad \cup {<<n, l>> : n \in Verdict(Line)}
             /\ l' = l + 1 /\ tid' = tid
             /\ (l' > Len(Traces[tid])) => PrintT("@@" \o ToJson([tid |-> tid, n |-> Len(Traces[tid]), bad |-> bad']))
TraceSpec == TraceInit /\ [][TraceNext]_<<tid, l, bad>>
=============================================================================
