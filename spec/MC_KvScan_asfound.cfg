SPECIFICATION Spec
CONSTANT StoresC <- Stores_quick
CHECK_DEADLOCK FALSE
INVARIANT KS_NewestAlways
