SPECIFICATION Spec
CONSTANT StoresC <- Stores_quick
CONSTANT SeekTopC <- SeekRepaired
CONSTANT RangeC <- TRUE
CHECK_DEADLOCK FALSE
INVARIANT KS_NewestAlways
