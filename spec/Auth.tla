-------------------------------- MODULE Auth --------------------------------
(***************************************************************************)
(* NIP-42 authentication and role-based authorisation                       *)
(* (nostr_relay/auth.py Authenticator, used by web.start_client,            *)
(* BaseStorage.subscribe and the add_event of the storages).                *)
(*                                                                         *)
(* An AUTH payload is abstracted to what the decision may depend on:        *)
(*   signer   the key that signed it                                        *)
(*   sig      "ok" | "bad"                                                  *)
(*   kind     the event kind                                                *)
(*   age      now - created_at in seconds                                   *)
(*   relays   the sequence of relay-tag classes it carries:                 *)
(*            "exact" (a configured URL) | "substring" | "superstring" |    *)
(*            "foreign"                                                     *)
(*   chals    the sequence of challenge-tag values: connection ids whose    *)
(*            challenge is quoted, or "none" for a string that is nobody's  *)
(* The contract leaves open only what the property statement leaves open:   *)
(* a payload exactly ten minutes old / new, and a payload that carries a    *)
(* good and a bad instance of the same tag.                                 *)
(***************************************************************************)
EXTENDS Integers, Sequences, FiniteSets, TLC

CONSTANTS Conns,        \* connections; connection c's challenge is identified with c
          Keys,         \* signing keys
          RolesOf,      \* [key -> set of roles] as assigned by set_auth_roles
          DefaultRoles, \* roles of a connection that is not authenticated
          ActionRoles   \* [action -> set of roles]: "save", "query"

VARIABLES token,        \* [c -> the session of connection c]: [st |-> "none" | "auth" | "closed", key, roles]
          roles,        \* [key -> set of roles] as last assigned (set_auth_roles); starts as RolesOf
          last          \* the last step, for the action properties

vars == <<token, roles, last>>
Range(s) == {s[i] : i \in DOMAIN s}

NoSession == [st |-> "none", key |-> "", roles |-> {}]
Session(k, rs) == [st |-> "auth", key |-> k, roles |-> rs]
Init == token = [c \in Conns |-> NoSession] /\ roles = RolesOf /\ last = [a |-> "init"]

Fresh(p) == p.age > -600 /\ p.age < 600
Stale(p) == p.age > 600 \/ p.age < -600                      \* exactly 600 s: either way
WellFormed(p) == p.sig = "ok" /\ p.kind = 22242
\* must be accepted: everything right, no contradicting duplicate tags
MustAccept(c, p) ==
    /\ WellFormed(p) /\ Fresh(p)
    /\ p.relays # <<>> /\ \A k \in DOMAIN p.relays : p.relays[k] = "exact"
    /\ p.chals # <<>> /\ \A k \in DOMAIN p.chals : p.chals[k] = c
\* must be refused: something required is wrong or has no good instance at all
MustReject(c, p) ==
    \/ ~WellFormed(p) \/ Stale(p)
    \/ \A k \in DOMAIN p.relays : p.relays[k] # "exact"          \* (also: no relay tag)
    \/ \A k \in DOMAIN p.chals : p.chals[k] # c                   \* (also: no challenge tag, another connection's challenge)

\* a connection the relay has closed (an error in the handler, a timeout): it has no identity and no roles any more
Closed == [st |-> "closed", key |-> "", roles |-> {}]

(* an AUTH message on connection c; ok = whether the relay accepted it *)
Auth(c, p, ok) ==
    /\ (ok => ~MustReject(c, p) /\ token[c] # Closed)
    /\ (~ok => ~MustAccept(c, p) \/ token[c] = Closed)
    \* the session names the signer and carries the roles assigned to that key at this moment
    /\ token' = IF ok THEN [token EXCEPT ![c] = Session(p.signer, roles[p.signer])] ELSE token
    /\ UNCHANGED roles
    /\ last' = [a |-> "auth", c |-> c, p |-> p, ok |-> ok]

(* the relay closes connection c (web.start_client's outer handlers: close code 1013) *)
Close(c) ==
    /\ token' = [token EXCEPT ![c] = Closed]
    /\ UNCHANGED roles
    /\ last' = [a |-> "close", c |-> c]

(* the operator assigns roles to a key (set_auth_roles): sessions that exist keep the roles they were given; the next *)
(* AUTH of that key - on any connection - gets the new ones                                                       *)
SetRoles(k, rs) ==
    /\ roles' = [roles EXCEPT ![k] = rs]
    /\ UNCHANGED token
    /\ last' = [a |-> "setroles", key |-> k]

RolesOfConn(c) == IF token[c].st = "none" THEN DefaultRoles ELSE IF token[c].st = "closed" THEN {} ELSE token[c].roles
May(c, action) == RolesOfConn(c) \cap ActionRoles[action] # {}

(* a probe on connection c: an EVENT (save) or a REQ (query) of someone entitled iff the roles intersect *)
Probe(c, action, allowed) ==
    /\ allowed = May(c, action)
    /\ UNCHANGED <<token, roles>>
    /\ last' = [a |-> "probe", c |-> c, action |-> action, allowed |-> allowed]

----------------------------------------------------------------------------
\* C15: the identity of a connection changes only by a fresh, correctly signed answer to its own challenge ...
A_C15_OnlyValidAuth ==
    \A c \in Conns : token'[c] # token[c] =>
        \/ /\ last'.a = "auth" /\ last'.c = c /\ last'.ok
           /\ ~MustReject(c, last'.p) /\ token'[c].st = "auth" /\ token'[c].key = last'.p.signer
        \/ last'.a = "close" /\ last'.c = c /\ token'[c] = Closed
\* ... any other AUTH leaves it as it was
A_C15_FailedAuthKeepsIdentity == (last'.a = "auth" /\ ~last'.ok) => token' = token
\* ... and an answer to another connection's challenge is useless
A_C15_NoCrossReplay ==
    (last'.a = "auth" /\ last'.ok) => \E k \in DOMAIN last'.p.chals : last'.p.chals[k] = last'.c
\* C14: an action is performed iff the connection's roles intersect the roles configured for it
A_C14_RoleCheck == last'.a = "probe" => last'.allowed = (RolesOfConn(last'.c) \cap ActionRoles[last'.action] # {})
\* C14: a session carries the roles assigned to its key when it authenticated (a later assignment shows at the next AUTH)
A_C14_SessionRolesCurrent ==
    (last'.a = "auth" /\ last'.ok) => token'[last'.c].roles = roles[last'.p.signer]

C15_OnlyValidAuth == [][A_C15_OnlyValidAuth]_vars
C15_FailedAuthKeepsIdentity == [][A_C15_FailedAuthKeepsIdentity]_vars
C15_NoCrossReplay == [][A_C15_NoCrossReplay]_vars
C14_RoleCheck == [][A_C14_RoleCheck]_vars
C14_SessionRolesCurrent == [][A_C14_SessionRolesCurrent]_vars

StepVerdict ==
    (IF A_C15_OnlyValidAuth THEN {} ELSE {"C15_OnlyValidAuth"})
    \cup (IF A_C15_FailedAuthKeepsIdentity THEN {} ELSE {"C15_FailedAuthKeepsIdentity"})
    \cup (IF A_C15_NoCrossReplay THEN {} ELSE {"C15_NoCrossReplay"})
    \cup (IF A_C14_RoleCheck THEN {} ELSE {"C14_RoleCheck"})
    \cup (IF A_C14_SessionRolesCurrent THEN {} ELSE {"C14_SessionRolesCurrent"})
\* challenges: pairwise distinct, well-formed (a sequence of issued challenges, as strings)
C15_ChallengesDistinct(chs) == Cardinality(Range(chs)) = Len(chs)
=============================================================================
