SPECIFICATION Spec
INVARIANT C10_Coherent
CHECK_DEADLOCK FALSE
