------------------------------- MODULE Nostr -------------------------------
(***************************************************************************)
(* Data model and pure operators shared by every specification of the      *)
(* relay: events, NIP-01 filters and matching, replaceable addresses        *)
(* (NIP-16/33), deletion targets (NIP-09), expiration (NIP-40), and the     *)
(* contract a query answer has to satisfy.  No variables.                   *)
(*                                                                         *)
(* An abstract event is a record                                           *)
(*   [pk, kind, ts, tags, auth, exp]                                        *)
(* pk    author symbol ("A", "B", ...)                                      *)
(* kind  the real kind number                                               *)
(* ts    created_at as an offset from the harness' grid origin             *)
(* tags  sequence of sequences of strings (symbols), tags[i][1] the name    *)
(* auth  TRUE iff id = sha256(canonical form), sig valid, delegation tags   *)
(*       validly signed - computed by an oracle independent of the relay    *)
(* exp   <<>> no expiration tag | <<"n", v>> well-formed value v (offset)   *)
(*       | <<"bad">> malformed value                                        *)
(* Events are referred to by id symbols; Ev maps an id to its record.      *)
(* Optional values are <<>> (absent) or <<v>> (present).                    *)
(***************************************************************************)
EXTENDS Integers, Sequences, FiniteSets

CONSTANT OneCharNames   \* the tag names of length one occurring in the universe (TLC cannot measure a string)

Absent == <<>>
Some(x) == <<x>>
Has(o) == o # <<>>
Val(o) == o[1]
Range(s) == {s[i] : i \in DOMAIN s}
Min(a, b) == IF a < b THEN a ELSE b
Max(a, b) == IF a > b THEN a ELSE b
SetMin(S) == CHOOSE x \in S : \A y \in S : x <= y

----------------------------------------------------------------------------
(* kinds *)

KClass(k) == CASE k \in {0, 3} -> "meta"
               [] k = 5 -> "delete"
               [] k >= 10000 /\ k < 20000 -> "repl"
               [] k >= 20000 /\ k < 30000 -> "eph"
               [] k >= 30000 /\ k < 40000 -> "prepl"
               [] OTHER -> "regular"

IsEph(e) == KClass(e.kind) = "eph"
IsReplaceable(e) == KClass(e.kind) \in {"meta", "repl", "prepl"}
IsDelete(e) == KClass(e.kind) = "delete"

----------------------------------------------------------------------------
(* tags *)

TagIdx(e, name) == {i \in DOMAIN e.tags : Len(e.tags[i]) >= 1 /\ e.tags[i][1] = name}
\* values (second item) of all tags called name that have a value
TagVals(e, name) == {e.tags[i][2] : i \in {j \in TagIdx(e, name) : Len(e.tags[j]) >= 2}}

\* NIP-33 d-value: value of the first d tag; absent, bare and empty all mean ""
DVal(e) == LET ds == TagIdx(e, "d") IN
           IF ds = {} THEN ""
           ELSE LET i == SetMin(ds) IN IF Len(e.tags[i]) >= 2 THEN e.tags[i][2] ELSE ""

\* replaceable address
Addr(e) == IF KClass(e.kind) = "prepl" THEN <<e.pk, e.kind, DVal(e)>> ELSE <<e.pk, e.kind>>

\* NIP-26: delegators named by the event
Delegators(e) == TagVals(e, "delegation")

\* ids referenced by e tags (meaningful for kind 5)
ERefs(e) == TagVals(e, "e")

\* tags the relay indexes and can be asked for: one-character names (#x filters), expiration, delegation
Indexable(name) == name \in {"expiration", "delegation"} \/ name \in OneCharNames
IndexableTags(e) == {<<e.tags[i][1], e.tags[i][2]>> :
                        i \in {j \in DOMAIN e.tags : Len(e.tags[j]) >= 2 /\ Indexable(e.tags[j][1])}}

----------------------------------------------------------------------------
(* filters: [ids, authors, kinds, tags, since, until, limit]
   ids, authors, kinds : <<>> or <<set>> ; tags : set of <<name, set of values>> ;
   since, until, limit : <<>> or <<n>> *)

TagHit(e, name, vals) == TagVals(e, name) \cap vals # {}

\* deleg = FALSE gives the matching of a relay that does not consult NIP-26 delegation tags
\* (used only to classify a recorded known finding; the properties use Matches)
MatchesG(id, e, f, strict, deleg) ==
    /\ (Has(f.ids)     => id \in Val(f.ids))
    /\ (Has(f.authors) => (e.pk \in Val(f.authors) \/ (deleg /\ Delegators(e) \cap Val(f.authors) # {})))
    /\ (Has(f.kinds)   => e.kind \in Val(f.kinds))
    /\ (\A tv \in f.tags : TagHit(e, tv[1], tv[2]))
    /\ (Has(f.since)   => IF strict THEN e.ts > Val(f.since) ELSE e.ts >= Val(f.since))
    /\ (Has(f.until)   => IF strict THEN e.ts < Val(f.until) ELSE e.ts <= Val(f.until))
Matches(id, e, f, strict) == MatchesG(id, e, f, strict, TRUE)

\* a filter the relay must refuse to evaluate (NIP-01 gives it no meaning):
\* an empty list for ids/authors/kinds or an empty value set for a tag
Unconstrained(f) == ~Has(f.ids) /\ ~Has(f.authors) /\ ~Has(f.kinds) /\ f.tags = {} /\ ~Has(f.since) /\ ~Has(f.until)
Degenerate(f) == \/ Unconstrained(f)      \* this relay deliberately refuses full scans ("no range scans allowed")
                 \/ (Has(f.ids) /\ Val(f.ids) = {})
                 \/ (Has(f.authors) /\ Val(f.authors) = {})
                 \/ (Has(f.kinds) /\ Val(f.kinds) = {})
                 \/ (\E tv \in f.tags : tv[2] = {})

=============================================================================
