---------------------------- MODULE MC_DynLists ----------------------------
EXTENDS Integers, Sequences, FiniteSets, TLC
CONSTANTS AsFound, WithStatic
VARIABLES allow, old, new, pc, reads
INSTANCE DynLists WITH Keys <- {"x", "y", "s", "z"}, Static <- (IF WithStatic THEN {"s"} ELSE {}), Targets <- {{}, {"x"}, {"x", "y"}, {"y"}}
Bound == Cardinality(reads) <= 6
=============================================================================
