---------------------------- MODULE MC_DynLists ----------------------------
EXTENDS Integers, Sequences, FiniteSets, TLC
CONSTANT AsFound
VARIABLES allow, old, new, pc, reads
INSTANCE DynLists WITH Keys <- {"x", "y", "s", "z"}, Static <- {"s"}, Targets <- {{}, {"x"}, {"x", "y"}, {"y"}}
Bound == Cardinality(reads) <= 6
=============================================================================
