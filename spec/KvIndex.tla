------------------------------ MODULE KvIndex ------------------------------
(***************************************************************************)
(* The LMDB keyspace of nostr_relay/storage/kv.py: one primary record per   *)
(* event and five secondary indexes, all in one key order, plus a sentinel. *)
(*                                                                         *)
(*   real key layout                                  abstract key           *)
(*   00 <id>                          (value: event)  <<"id", i>>            *)
(*   01 <ts4> 00 <ts4> 00 <id>                        <<"created", ts, i>>   *)
(*   02 <kind4> 00 <ts4> 00 <id>                      <<"kind", k, ts, i>>   *)
(*   03 <pubkey> 00 <ts4> 00 <id>                     <<"author", pk, ts, i>>*)
(*   04 <pubkey> 00 <kind4> 00 <ts4> 00 <id>          <<"authorkind", pk, k, ts, i>> *)
(*   09 <name> 00 <str(value)> 00 <ts4> 00 <id>       <<"tag", name, val, ts, i>>    *)
(*   ee                                               <<"sentinel">>         *)
(* The harness decodes real keys by prefix byte and maps the concrete       *)
(* fields back to the universe's symbols; bytes it cannot map become        *)
(* <<"garbage", ...>> keys, for which no event has an image.                *)
(*                                                                         *)
(* The writer's operations are transcribed: an "add" writes every index of  *)
(* the event and then removes what it supersedes / deletes by clearing      *)
(* every index of the victim (WriterThread.run / _post_save /               *)
(* _delete_event); everything happens in one transaction, which either      *)
(* commits or leaves the keyspace untouched.                                *)
(***************************************************************************)
EXTENDS Nostr, TLC, SequencesExt

CONSTANTS Universe

VARIABLES keys,      \* the set of abstract keys in the environment
          phase      \* <<"idle", {}, <<>> >> | <<"txn", keys at begin, operations still to do>>

Ev(i) == Universe[i]
Ids == DOMAIN Universe
Sentinel == <<"sentinel">>

IndexImage(i) ==
    LET e == Ev(i) IN
    {<<"id", i>>, <<"created", e.ts, i>>, <<"kind", e.kind, e.ts, i>>, <<"author", e.pk, e.ts, i>>,
     <<"authorkind", e.pk, e.kind, e.ts, i>>}
    \cup {<<"tag", tv[1], tv[2], e.ts, i>> : tv \in IndexableTags(e)}

Primary(K) == {k[2] : k \in {x \in K : x[1] = "id"}}
Expected(K) == {Sentinel} \cup UNION {IndexImage(i) : i \in Primary(K) \cap Ids}

\* the SQL backend's counterpart: one row in `events` and one row in `tags` per indexable tag (a bare one-character
\* tag is stored with the value "")
SqlTagPairs(e) == IndexableTags(e) \cup {<<e.tags[j][1], "">> : j \in {k \in DOMAIN e.tags : Len(e.tags[k]) = 1 /\ e.tags[k][1] \in OneCharNames}}
SqlImage(i) == {<<"id", i>>} \cup {<<"tagrow", tv[1], tv[2], i>> : tv \in SqlTagPairs(Ev(i))}
ExpectedSql(K) == UNION {SqlImage(i) : i \in Primary(K) \cap Ids}



\* C10: every index entry has its record, every record all its entries, nothing under a foreign value
\* an entry (index key / tags row) whose record is gone: every key ends with the id of the record it belongs to
EntriesWithoutRecord(K) == {k \in K : k # Sentinel /\ k[1] # "id" /\ k[Len(k)] \notin Primary(K)}
Dangling(K) == K \ Expected(K)          \* entries without record / under a value the event does not have / garbage
Missing(K)  == Expected(K) \ K          \* entries a stored record lacks
IsIdle == phase[1] = "idle"
IdlePhase == <<"idle", {}, <<>> >>
C10_Coherent == IsIdle => keys = Expected(keys)

----------------------------------------------------------------------------
(* the writer, operation by operation *)

Init == keys = {Sentinel} /\ phase = IdlePhase

\* the single put / delete operations of adding event i to keyspace K (the victims are cleared after the writes)
SameAddrK(x, i) == IsReplaceable(Ev(i)) /\ x # i /\ Addr(Ev(x)) = Addr(Ev(i))
Victims(K, i) == {x \in Primary(K) \cap Ids :
                    \/ SameAddrK(x, i) /\ Ev(x).ts <= Ev(i).ts
                    \/ IsDelete(Ev(i)) /\ x \in ERefs(Ev(i)) /\ Ev(x).pk = Ev(i).pk /\ Ev(x).ts < Ev(i).ts /\ x # i}
OpsOfAdd(K, i) ==
    IF i \in Primary(K) THEN <<>>
    ELSE [k \in 1..Cardinality(IndexImage(i)) |-> <<"put", SetToSeq(IndexImage(i))[k]>>]
         \o LET dels == UNION {IndexImage(x) : x \in Victims(K, i)} IN
            [k \in 1..Cardinality(dels) |-> <<"del", SetToSeq(dels)[k]>>]
OpsOfDel(K, i) == IF i \in Primary(K) THEN [k \in 1..Cardinality(IndexImage(i)) |-> <<"del", SetToSeq(IndexImage(i))[k]>>] ELSE <<>>

Begin(ops) == /\ IsIdle
              /\ phase' = <<"txn", keys, ops>>
              /\ UNCHANGED keys
Op ==   /\ ~IsIdle /\ phase[3] # <<>>
        /\ LET o == Head(phase[3]) IN
           keys' = IF o[1] = "put" THEN keys \cup {o[2]} ELSE keys \ {o[2]}
        /\ phase' = <<"txn", phase[2], Tail(phase[3])>>
Commit == /\ ~IsIdle /\ phase[3] = <<>>
          /\ phase' = IdlePhase /\ UNCHANGED keys
\* an engine error or a process kill at any point of the transaction: the keyspace is what it was at Begin
Abort == /\ ~IsIdle
         /\ keys' = phase[2] /\ phase' = IdlePhase

Next == \/ \E i \in Ids : Begin(OpsOfAdd(keys, i)) \/ Begin(OpsOfDel(keys, i))
        \/ Op \/ Commit \/ Abort

Spec == Init /\ [][Next]_<<keys, phase>>
=============================================================================
