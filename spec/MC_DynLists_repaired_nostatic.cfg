SPECIFICATION Spec
CONSTANT AsFound = FALSE
CONSTANT WithStatic = FALSE
CONSTRAINT Bound
INVARIANT C16_NoEmptyWindow
INVARIANT C16_ListExact
CHECK_DEADLOCK FALSE
