------------------------------- MODULE Query -------------------------------
(***************************************************************************)
(* The contract of a query answer (properties C01, C02, C11, C12).          *)
(*                                                                         *)
(* S    set of stored ids,  fs  sequence of filters,                        *)
(* R    the sequence of ids delivered for the REQ before EOSE.             *)
(* The contract is deliberately a relation, with exactly the freedom the    *)
(* property statements grant: events whose timestamp equals since/until     *)
(* may be served or not (Matches strict / loose), an event matching k       *)
(* filters may arrive 1..k times, and delivered items are attributed to     *)
(* filters existentially because a REQ gives the client no attribution.     *)
(***************************************************************************)
EXTENDS Nostr

CONSTANTS Universe,     \* function: id symbol -> event record
          MaxLimit      \* configured max_limit

Ev(i) == Universe[i]
Ids == DOMAIN Universe

MStrict(S, f) == {i \in S : Matches(i, Ev(i), f, TRUE)}
MLoose(S, f)  == {i \in S : Matches(i, Ev(i), f, FALSE)}

\* effective limit of a filter on the subscription path
Eff(f) == IF Has(f.limit) THEN Min(Val(f.limit), MaxLimit) ELSE MaxLimit

\* filters that take part in the answer (a degenerate filter contributes nothing)
Live(fs) == {j \in DOMAIN fs : ~Degenerate(fs[j])}

Count(R, i) == Cardinality({k \in DOMAIN R : R[k] = i})

\* C01: only stored events matching one of the filters
Sound(S, fs, R) ==
    \A k \in DOMAIN R : R[k] \in S /\ \E j \in Live(fs) : Matches(R[k], Ev(R[k]), fs[j], FALSE)

\* C02: everything strictly matching is there when the filter's limit cannot truncate
Complete(S, fs, R) ==
    \A j \in Live(fs) : Cardinality(MLoose(S, fs[j])) <= Eff(fs[j]) => MStrict(S, fs[j]) \subseteq Range(R)

\* the same for a relay that ignores delegation when serving stored `authors` queries (known finding, LMDB)
CompleteOwn(S, fs, R) ==
    \A j \in Live(fs) : Cardinality(MLoose(S, fs[j])) <= Eff(fs[j]) =>
        {i \in S : MatchesG(i, Ev(i), fs[j], TRUE, FALSE)} \subseteq Range(R)

\* C02: an event matching k filters arrives between 1 and k times
Multiplicity(S, fs, R) ==
    \A i \in Range(R) : Count(R, i) <= Cardinality({j \in Live(fs) : Matches(i, Ev(i), fs[j], FALSE)})

\* C12: there is an attribution of delivered items to filters (each item to a filter it matches, copies of
\* one event to different filters) under which every filter gets at most its limit and no matching event
\* that was left out of the answer is newer than one sent for that filter.
Cand(fs, R, k) == {j \in Live(fs) : Matches(R[k], Ev(R[k]), fs[j], FALSE)}
RECURSIVE AttrUpTo(_, _, _)
AttrUpTo(fs, R, k) == IF k = 0 THEN {<<>>}
                      ELSE {Append(a, j) : a \in AttrUpTo(fs, R, k - 1), j \in Cand(fs, R, k)}
Attributions(fs, R) == {a \in AttrUpTo(fs, R, Len(R)) :
                          \A k, m \in DOMAIN R : (k # m /\ R[k] = R[m]) => a[k] # a[m]}
CannotTruncate(S, fs) == \A j \in Live(fs) : Cardinality(MLoose(S, fs[j])) <= Eff(fs[j])
LimitOKG(S, fs, R, deleg) ==
    \/ CannotTruncate(S, fs) /\ Complete(S, fs, R) /\ Multiplicity(S, fs, R)   \* then any attribution works
    \/ \E a \in Attributions(fs, R) :
        \A j \in Live(fs) :
            LET mine == {k \in DOMAIN R : a[k] = j} IN
            /\ Cardinality(mine) <= Eff(fs[j])
            /\ \A y \in {i \in S : MatchesG(i, Ev(i), fs[j], TRUE, deleg)} \ Range(R) :
                   \A k \in mine : ~(Ev(y).ts > Ev(R[k]).ts)
LimitOK(S, fs, R) == LimitOKG(S, fs, R, TRUE)

\* The SQL backend's statement, as built by Subscription.build_query: ONE statement for the whole REQ -
\*   SELECT ... WHERE (filter 1) OR (filter 2) ... ORDER BY created_at DESC LIMIT n
\* with n the limit of the LAST filter (capped by max_limit).  Its meaning, as a relation: no event twice, only events of
\* the union of the filters, the newest n of them.  This is the as-found behaviour behind the open finding
\* sql-one-limit-for-all-filters (per-filter limits are not honoured in a multi-filter REQ); an answer that satisfies
\* SqlModel and violates LimitOK / Complete is that finding and nothing else.
\* (the statement compares `created_at >= since AND created_at < until`: `until` is exclusive there)
SqlFilter(f) == IF Has(f.until) THEN [f EXCEPT !.until = <<Val(f.until) - 1>>] ELSE f
SqlUnion(S, fs) == {i \in S : \E j \in Live(fs) : Matches(i, Ev(i), SqlFilter(fs[j]), FALSE)}
SqlN(fs) == IF fs = <<>> THEN MaxLimit ELSE Eff(fs[Len(fs)])
SqlModel(S, fs, R) ==
    /\ \A k, m \in DOMAIN R : k # m => R[k] # R[m]
    /\ Range(R) \subseteq SqlUnion(S, fs)
    /\ Len(R) = Min(SqlN(fs), Cardinality(SqlUnion(S, fs)))
    /\ \A y \in SqlUnion(S, fs) \ Range(R) : \A k \in DOMAIN R : ~(Ev(y).ts > Ev(R[k]).ts)

\* C12, the plain count: never more items than the filters' effective limits add up to (whatever else went wrong)
RECURSIVE SumEff(_, _)
SumEff(fs, J) == IF J = {} THEN 0 ELSE LET j == CHOOSE x \in J : TRUE IN Eff(fs[j]) + SumEff(fs, J \ {j})
AtMostLimit(fs, R) == Len(R) <= SumEff(fs, Live(fs))

QueryOK(S, fs, R) == Sound(S, fs, R) /\ Complete(S, fs, R) /\ Multiplicity(S, fs, R) /\ LimitOK(S, fs, R)

\* which clauses fail (for verdicts)
QueryVerdict(S, fs, R) ==
    (IF Sound(S, fs, R) THEN {} ELSE {"C01_Sound"})
    \cup (IF Complete(S, fs, R) THEN {} ELSE IF CompleteOwn(S, fs, R) THEN {"C02_Complete_OnlyDelegatedMissing"}
                                               ELSE {"C02_Complete"})
    \cup (IF Multiplicity(S, fs, R) THEN {} ELSE {"C02_Multiplicity"})
    \cup (IF ~Sound(S, fs, R) \/ ~Multiplicity(S, fs, R) \/ LimitOK(S, fs, R) THEN {}
          ELSE IF LimitOKG(S, fs, R, FALSE) THEN {"C12_Limit_OnlyDelegatedMissing"} ELSE {"C12_Limit"})
    \cup (IF AtMostLimit(fs, R) THEN {} ELSE {"C12_AtMostLimit"})
\* an answer during which the storage engine failed (a transient error while rows were fetched): it may be cut short - a
\* prefix of the newest-first order - so completeness is not asked of it; everything else is
FaultedVerdict(S, fs, R) == QueryVerdict(S, fs, R) \ {"C02_Complete", "C02_Complete_OnlyDelegatedMissing"}

\* C01, "filter contents are pure data": the statement / generated code the storage engine is given depends only on
\* the shape of the filter (which fields are present), never on the values.  P is a set of <<shape, skeleton>> pairs
\* observed while answering REQs, the skeleton being the statement with every literal replaced by a placeholder.
StatementsAreData(P) == \A a, b \in P : a[1] = b[1] => a[2] = b[2]
OffendingShapes(P) == {a[1] : a \in {x \in P : \E y \in P : x[1] = y[1] /\ x[2] # y[2]}}

----------------------------------------------------------------------------
(* relations between two answers (C11) *)

\* N added to / removed from the store although nothing in N matches f: same answer set
Unaffected(f, N, R1, R2) == (\A i \in N : ~Matches(i, Ev(i), f, FALSE)) => Range(R1) = Range(R2)

\* g narrows f (extra condition or smaller window): answers to g are among answers to f
Monotone(Rf, Rg) == Range(Rg) \subseteq Range(Rf)

=============================================================================
