-------------------------------- MODULE Junk --------------------------------
(***************************************************************************)
(* Robustness of the connection handler against hostile input (C19).        *)
(* Whatever text a client sends, the handler of that connection             *)
(*   - ignores it, or answers with OK / NOTICE, or closes that one          *)
(*     connection cleanly (ws_close or a normal return);                    *)
(*   - never lets an exception escape;                                      *)
(*   - keeps answering later well-formed commands if it kept the            *)
(*     connection open;                                                     *)
(*   - does not affect other connections;                                   *)
(* and when a connection ends, its subscriptions are dropped and its tasks  *)
(* finish.                                                                  *)
(***************************************************************************)
EXTENDS Integers, Sequences, FiniteSets, TLC

CONSTANT Conns
VARIABLES open, raised

vars == <<open, raised>>
Init == open = Conns /\ raised = FALSE

\* a junk frame on connection c; out = "ignored" | "answered" | "closed" | "raised"
Junk(c, out) ==
    /\ c \in open
    /\ out \in {"ignored", "answered", "closed"}
    /\ open' = IF out = "closed" THEN open \ {c} ELSE open
    /\ UNCHANGED raised
\* a well-formed probe command on c is answered iff c is still connected
Probe(c, answered) == answered = (c \in open) /\ UNCHANGED vars
Next == \E c \in Conns : (\E o \in {"ignored", "answered", "closed"} : Junk(c, o)) \/ (\E b \in BOOLEAN : Probe(c, b))
Spec == Init /\ [][Next]_vars
C19_OnlyTheOffenderCloses == [][\A c \in Conns : (c \in open /\ c \notin open') => Cardinality(open \ open') = 1]_vars

\* verdict on one observed junk line / probe line / end line
JunkVerdict(c, out) ==
    (IF out = "raised" THEN {"C19_HandlerNeverRaises"} ELSE {})
    \cup (IF out \in {"ignored", "answered", "closed", "raised"} THEN {} ELSE {"C19_UnknownOutcome"})
ProbeVerdict(c, answered) == IF c \in open /\ ~answered THEN {"C19_StillAnswers"} ELSE {}
EndVerdict(tasks, handlersOk, regsEmpty) ==
    (IF tasks = 0 THEN {} ELSE {"C19_TasksFinish"})
    \cup (IF handlersOk THEN {} ELSE {"C19_HandlerNeverRaises"})
    \cup (IF regsEmpty THEN {} ELSE {"C19_SubscriptionsDropped"})
=============================================================================
