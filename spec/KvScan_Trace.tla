----------------------------- MODULE KvScan_Trace -----------------------------
(***************************************************************************)
(* Binding of KvScan.tla to nostr_relay/storage/kv.py.  A trace is a        *)
(* sequence of lines                                                        *)
(*   [store, f, ys, ans]                                                    *)
(* recorded from the real LMDBStorage: the stored ids (dumped from the      *)
(* environment), one filter, the ids the scanner handed to matcher() (seen  *)
(* through a harness-side wrapper around kv.matcher) and the REQ's answer.  *)
(* For every line TLC runs the transcribed machine on (store, f) and        *)
(*  - compares its yields and its answer with the recorded ones ("Conform": *)
(*    the code still is the algorithm the design-level result is about),    *)
(*  - evaluates the query clauses of C01 / C02 / C12 on the recorded answer.*)
(* The branch labels of each run are reported (path coverage).              *)
(***************************************************************************)
EXTENDS Integers, Sequences, FiniteSets, TLC, Json, TraceData

VARIABLES store, flt, ks, pc, stage, allowed, pos, mi, ys, ordered, ans, path, tid, l, bad, paths

K == INSTANCE KvScan WITH Universe <- TD_Universe, OneCharNames <- TD_OneCharNames, MaxLimit <- TD_MaxLimit, PkSym <- TD_PkSym,
                          IdSym <- TD_IdSym, Chars <- TD_Chars, Stores <- {}, Filters <- {}, SeekTop <- 100000, RangeInclusive <- TRUE
QQ == INSTANCE Query WITH Universe <- TD_Universe, OneCharNames <- TD_OneCharNames, MaxLimit <- TD_MaxLimit

Trace == Traces[tid]
Line == Trace[l]
SetOf(s) == {s[i] : i \in DOMAIN s}
IsPrefixOf(a, b) == Len(a) <= Len(b) /\ \A i \in DOMAIN a : a[i] = b[i]

TraceInit == /\ tid \in DOMAIN Traces /\ l = 1 /\ bad = {} /\ paths = <<>>
             /\ store = Traces[tid][1].store /\ flt = Traces[tid][1].f /\ ks = K!SortedKeys(Traces[tid][1].store)
             /\ pc = "plan" /\ stage = 0 /\ allowed = <<>> /\ pos = 0 /\ mi = 0 /\ ys = <<>> /\ ordered = TRUE /\ ans = <<>> /\ path = <<>>

Conforms ==
    LET eff == K!Eff(flt) IN
    IF ordered
    THEN /\ ans = Line.ans
         /\ IsPrefixOf(Line.ys, ys)                       \* the limit may stop the real matcher before the scanner is exhausted
         /\ (Len(Line.ans) < eff => Line.ys = ys)
    ELSE /\ SetOf(Line.ys) \subseteq SetOf(ys)
         /\ IF Len(ans) > eff THEN SetOf(Line.ans) \subseteq SetOf(ans) /\ Len(Line.ans) = eff
            ELSE SetOf(Line.ans) = SetOf(ans) /\ Len(Line.ans) = Len(ans) /\ SetOf(Line.ys) = SetOf(ys)

Verdict == (IF Conforms THEN {} ELSE {"Conform"}) \cup QQ!QueryVerdict(store, <<flt>>, Line.ans)

Step == /\ pc # "done"
        /\ K!Next
        /\ UNCHANGED <<tid, l, bad, paths>>

Judge == /\ pc = "done"
         /\ l <= Len(Trace)
         /\ bad' = bad \cup {<<n, l>> : n \in Verdict}
         /\ paths' = Append(paths, path)
         /\ l' = l + 1 /\ tid' = tid
         /\ IF l + 1 <= Len(Trace)
            THEN LET nx == Trace[l + 1] IN
                 /\ store' = nx.store /\ flt' = nx.f /\ ks' = IF nx.store = store THEN ks ELSE K!SortedKeys(nx.store)
                 /\ pc' = "plan" /\ stage' = 0 /\ allowed' = <<>> /\ pos' = 0 /\ mi' = 0 /\ ys' = <<>> /\ ordered' = TRUE /\ ans' = <<>> /\ path' = <<>>
            ELSE /\ UNCHANGED <<store, flt, ks, pc, stage, allowed, pos, mi, ys, ordered, ans, path>>
                 /\ PrintT("@@" \o ToJson([tid |-> tid, n |-> Len(Trace), bad |-> bad', paths |-> paths']))

TraceNext == Step \/ Judge
TraceSpec == TraceInit /\ [][TraceNext]_<<store, flt, ks, pc, stage, allowed, pos, mi, ys, ordered, ans, path, tid, l, bad, paths>>
=============================================================================
