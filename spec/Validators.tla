----------------------------- MODULE Validators -----------------------------
(***************************************************************************)
(* The admission policies of nostr_relay/validators.py, each with its       *)
(* documented bound, and the pipeline built by get_validator: the           *)
(* validators run in the configured order and the first one that objects    *)
(* refuses the event with its reason.                                       *)
(*                                                                         *)
(* An event is abstracted to the attributes the policies look at:           *)
(*   len     length of the content          age   now - created_at (s)      *)
(*   kind    event kind                      pk    author                   *)
(*   pow     leading zero bits of the id     ptags number of p tags         *)
(*   signed  id and signature are right                                     *)
(* and the configuration to                                                 *)
(*   max_size, oldest, valid_kinds, whitelist, blacklist, require_pow,      *)
(*   hell_limit, service_pk                                                 *)
(***************************************************************************)
EXTENDS Integers, Sequences, FiniteSets, TLC

Names == {"is_signed", "is_not_too_large", "is_recent", "is_certain_kind", "is_author_whitelisted", "is_author_blacklisted",
          "is_pow", "is_not_hellthread", "is_service_event"}

Passes(v, e, cfg) ==
    CASE v = "is_signed"             -> e.signed
      [] v = "is_not_too_large"      -> e.len <= cfg.max_size
      [] v = "is_recent"             -> e.age <= cfg.oldest /\ e.age >= -3600     \* not older than oldest_event, at most an hour ahead
      [] v = "is_certain_kind"       -> e.kind \in cfg.valid_kinds
      [] v = "is_author_whitelisted" -> e.pk \in cfg.whitelist
      [] v = "is_author_blacklisted" -> e.pk \notin cfg.blacklist
      [] v = "is_pow"                -> e.pow >= cfg.require_pow
      [] v = "is_not_hellthread"     -> ~(cfg.hell_limit > 0 /\ e.kind \in {1, 7} /\ e.ptags > cfg.hell_limit)
      [] v = "is_service_event"      -> ~(e.kind = 31494 /\ e.pk # cfg.service_pk)

Accepts(pipe, e, cfg) == \A k \in DOMAIN pipe : Passes(pipe[k], e, cfg)
FirstFailing(pipe, e, cfg) == pipe[CHOOSE k \in DOMAIN pipe : ~Passes(pipe[k], e, cfg) /\ \A j \in 1..(k - 1) : Passes(pipe[j], e, cfg)]

\* C16 for one submission: ok = accepted; reason = the set of validators the refusal message can come from;
\* stored / bcast = whether the event was stored / handed to the fan-out
Verdict(pipe, e, cfg, ok, reason, stored, bcast) ==
    (IF ok = Accepts(pipe, e, cfg) THEN {} ELSE {"C16_EveryValidatorApplied"})
    \cup (IF (~ok /\ ~Accepts(pipe, e, cfg)) => FirstFailing(pipe, e, cfg) \in reason THEN {} ELSE {"C16_RefusedWithItsReason"})
    \cup (IF ~ok => (~stored /\ ~bcast) THEN {} ELSE {"C16_RefusedLeavesNoTrace"})
    \cup (IF ok => stored \/ bcast THEN {} ELSE {"C16_AcceptedIsStored"})
=============================================================================
