------------------------------- MODULE KvScan -------------------------------
(***************************************************************************)
(* The LMDB query path of nostr_relay/storage/kv.py, transcribed:           *)
(*   planner()            which index serves a filter, and with which       *)
(*                        compiled matches (MultiIndex.finalize included)   *)
(*   Index.scanner()      the cursor walk over one index: matches visited   *)
(*                        from the largest to the smallest, set_range to    *)
(*                        match + until + 0xff, prev, stop key              *)
(*   IdIndex.scanner()    direct look-ups                                   *)
(*   MultiIndex.scanner() chained scans, each restricted to the ids the     *)
(*                        previous one produced                              *)
(*   matcher()            re-check of every condition on the record,        *)
(*                        de-duplication, limit                              *)
(* over the byte-ordered keyspace of KvIndex.tla.                           *)
(*                                                                         *)
(* Keys are sequences of naturals compared like LMDB compares byte strings  *)
(* (lexicographically, a proper prefix is smaller).  Fixed-width fields     *)
(* (id, pubkey, created_at, kind) are one symbol each - their relative      *)
(* order is all the scanner can observe - and strings (tag names, values)   *)
(* are their UTF-8 bytes (Chars).  0 is the separator, 238 the              *)
(* environment's sentinel key, 255 a lone 0xff (the created_at range scan   *)
(* seeks to prefix + 0xff) and Top the 32 x 0xff the match scanner appends  *)
(* to a seek target.  An id whose first byte is 0xff compares above a lone  *)
(* 0xff, so such ids get symbols above 255 (IdSym) - with a lone 0xff as    *)
(* seek target, as found, the scanner stepped over them at the upper time   *)
(* bound (finding 20: a deletion kept a referenced event); SeekTop = 255    *)
(* reproduces that.  Strings containing NUL are outside this model (field   *)
(* positions would no longer align).                                        *)
(*                                                                         *)
(* One action per cursor operation group, so that TLC's state graph has one *)
(* edge per branch of the code; `path` records the branch labels and is the *)
(* signature by which implementation tests are chosen (one per distinct     *)
(* path), see harness/checks/kvscan.py.                                     *)
(***************************************************************************)
EXTENDS Nostr, TLC, SequencesExt

CONSTANTS Universe,   \* id symbol -> event record
          MaxLimit,   \* Config.max_limit
          PkSym,      \* author symbol -> natural (order of the pubkeys' bytes)
          IdSym,      \* id symbol -> natural (order of the ids' bytes; > 255 iff the id starts with 0xff)
          Chars,      \* string -> sequence of 1..254 (its UTF-8 bytes)
          Stores,     \* the stores (sets of ids) to explore
          Filters,    \* the filters to explore
          RangeInclusive, \* the created_at range scan includes both bounds (repaired) or, as found, excludes `since` and keeps one id at `until`
          SeekTop     \* what next_match appends to its seek target: Top (32 x 0xff, repaired) or 255 (a lone 0xff, as found)

VARIABLES store, flt,
          ks,        \* the keyspace of `store`, sorted (a function of store; kept in a variable so that it is computed once)
          pc, stage, allowed, pos, mi, ys, ordered, ans, path

vars == <<store, flt, ks, pc, stage, allowed, pos, mi, ys, ordered, ans, path>>

Ev(i) == Universe[i]
Q == INSTANCE Query

----------------------------------------------------------------------------
(* byte order *)

Top == 100000      \* sorts after every id symbol
Less(a, b) == \E n \in 1..Len(b) : /\ \A m \in 1..(n - 1) : m <= Len(a) /\ a[m] = b[m]
                                   /\ (n > Len(a) \/ (n <= Len(a) /\ a[n] < b[n]))
StartsWith(k, p) == Len(k) >= Len(p) /\ \A m \in 1..Len(p) : k[m] = p[m]

----------------------------------------------------------------------------
(* key layout (Index.write, *Index.to_key) *)

KTail(e, i) == <<0, e.ts, 0, IdSym[i]>>
VCreated(t) == <<1, t>>
VKind(k) == <<2, k>>
VAuthor(p) == <<3, PkSym[p]>>
VAK(p, k) == <<4, PkSym[p], 0, k>>
VTag(n, v) == <<9>> \o Chars[n] \o <<0>> \o Chars[v]
RecordKey(i) == <<0, IdSym[i]>>
EntryKeys(i) == LET e == Ev(i) IN
    {VCreated(e.ts) \o KTail(e, i), VKind(e.kind) \o KTail(e, i), VAuthor(e.pk) \o KTail(e, i), VAK(e.pk, e.kind) \o KTail(e, i)}
    \cup {VTag(tv[1], tv[2]) \o KTail(e, i) : tv \in IndexableTags(e)}
SentinelKey == <<238>>
Keyspace(S) == {SentinelKey} \cup UNION {EntryKeys(i) \cup {RecordKey(i)} : i \in S}
SortedKeys(S) == SortSeq(SetToSeq(Keyspace(S)), Less)

IdOfKey(k) == CHOOSE i \in DOMAIN IdSym : IdSym[i] = k[Len(k)]
TsOfKey(k) == k[Len(k) - 2]

----------------------------------------------------------------------------
(* cursor *)

\* position of the first key >= t; 0 = not found (cursor unpositioned)
SetRangeIn(ksq, t) == LET ge == {p \in DOMAIN ksq : ~Less(ksq[p], t)} IN IF ge = {} THEN 0 ELSE SetMin(ge)
SetRange(t) == SetRangeIn(ks, t)
KeyAt(p) == IF p = 0 THEN <<>> ELSE ks[p]

----------------------------------------------------------------------------
(* Index.scanner as a function: the yields of one walk over the sorted keyspace ksq for the compiled matches cm (largest
   first) and optional bounds.  The machine below performs the same walk one branch per step (KS_FnAgrees); the writer's
   transcription KvWrite.tla uses the function, as WriterThread._post_save uses the scanner. *)
RECURSIVE ScanFrom(_, _, _, _, _, _, _)
ScanFrom(ksq, cm, since, until, m, p, acc) ==
    LET key == IF p = 0 THEN <<>> ELSE ksq[p]
        addt == IF Has(until) THEN <<Val(until), 0>> ELSE <<>>
        stop == cm[Len(cm)] \o (IF Has(since) THEN <<Val(since)>> ELSE <<>>)
        off == \/ ~StartsWith(key, cm[m])
               \/ (Has(since) /\ TsOfKey(key) < Val(since))
               \/ (Has(until) /\ TsOfKey(key) > Val(until))
    IN IF off THEN IF m = Len(cm) THEN acc
                   ELSE LET landed == SetRangeIn(ksq, cm[m + 1] \o addt \o <<SeekTop>>) IN
                        IF landed = 0 THEN acc ELSE ScanFrom(ksq, cm, since, until, m + 1, landed - 1, acc)
       ELSE IF Less(key, stop) THEN acc
       ELSE IF p - 1 = 0 THEN Append(acc, IdOfKey(key))
       ELSE ScanFrom(ksq, cm, since, until, m, p - 1, Append(acc, IdOfKey(key)))
ScanFn(ksq, cm, since, until) ==
    LET addt == IF Has(until) THEN <<Val(until), 0>> ELSE <<>>
        landed == SetRangeIn(ksq, cm[1] \o addt \o <<SeekTop>>) IN
    ScanFrom(ksq, cm, since, until, 1, IF landed = 0 THEN 0 ELSE landed - 1, <<>>)

----------------------------------------------------------------------------
(* planner *)

Desc(S) == SortSeq(SetToSeq(S), LAMBDA a, b : Less(b, a))
IdsDesc(S) == SortSeq(SetToSeq(S), LAMBDA a, b : IdSym[a] > IdSym[b])

\* the indexes a filter adds to the MultiIndex, in the order of planner(): ids, author/kind, tags
Added(f) ==
    (IF Has(f.ids) THEN << <<"ids", IdsDesc(Val(f.ids))>> >> ELSE <<>>)
    \o (IF Has(f.kinds) /\ Has(f.authors)
          THEN << <<"authorkinds", Desc({VAK(p, k) \o <<0>> : p \in Val(f.authors), k \in Val(f.kinds)})>> >>
        ELSE IF Has(f.kinds) THEN << <<"kinds", Desc({VKind(k) \o <<0>> : k \in Val(f.kinds)})>> >>
        ELSE IF Has(f.authors) THEN << <<"authors", Desc({VAuthor(p) \o <<0>> : p \in Val(f.authors)})>> >>
        ELSE <<>>)
    \o (IF f.tags # {} THEN << <<"tags", Desc(UNION {{VTag(tv[1], v) \o <<0>> : v \in tv[2]} : tv \in f.tags})>> >> ELSE <<>>)

Card(name) == CASE name = "ids" -> 1000 [] name = "tags" -> 100 [] name = "authorkinds" -> 20 [] OTHER -> 1
SortKey(x) == Card(x[1]) * Len(x[2])

\* MultiIndex.finalize: the chain of <<index name, compiled matches>> that will be scanned
Chain(f) == LET xs == Added(f) IN
    IF xs = <<>> THEN << <<"created", <<>> >> >>
    ELSE IF Len(xs) = 1 THEN xs
    ELSE IF Has(f.ids) THEN <<xs[1]>>
    ELSE \* list.sort(key=..., reverse=True) is stable: equal keys keep their order
         IF SortKey(xs[1]) >= SortKey(xs[2]) THEN xs ELSE <<xs[2], xs[1]>>

Refused(f) == Degenerate(f)      \* empty lists, empty tag value sets, "no range scans allowed"
Eff(f) == IF Has(f.limit) THEN Min(Val(f.limit), MaxLimit) ELSE MaxLimit

\* matcher(): compile_match_from_query re-checks every condition, inclusive bounds, the author is the signer only
RecordMatches(i, f) == MatchesG(i, Ev(i), f, FALSE, FALSE)

----------------------------------------------------------------------------
(* the machine *)

Init == /\ store \in Stores /\ flt \in Filters
        /\ ks = SortedKeys(store)
        /\ pc = "plan" /\ stage = 0 /\ allowed = <<>> /\ pos = 0 /\ mi = 0 /\ ys = <<>> /\ ordered = TRUE /\ ans = <<>> /\ path = <<>>

Lab(x) == path' = Append(path, x)
Cur == Chain(flt)[stage]
CM == Cur[2]
Allowed(i) == allowed = <<>> \/ i \in allowed[1]
Since == flt.since
Until == flt.until
AddTime == IF Has(Until) THEN <<Val(Until), 0>> ELSE <<>>
Stop == CM[Len(CM)] \o (IF Has(Since) THEN <<Val(Since)>> ELSE <<>>)

Plan == /\ pc = "plan"
        /\ IF Refused(flt) THEN pc' = "done" /\ stage' = 0 /\ Lab("refused")
           ELSE pc' = "open" /\ stage' = 1 /\ Lab("plan:" \o Chain(flt)[1][1] \o (IF Len(Chain(flt)) > 1 THEN "+" \o Chain(flt)[2][1] ELSE ""))
        /\ UNCHANGED <<store, flt, ks, allowed, pos, mi, ys, ordered, ans>>

\* next_match(): seek to match + until + 32 x 0xff, step back if the seek found something
NextMatch(m) == LET landed == SetRange(CM[m] \o AddTime \o <<SeekTop>>) IN
                [skipped |-> landed # 0, pos |-> IF landed # 0 THEN landed - 1 ELSE 0]

Open == /\ pc = "open"
        /\ CASE Cur[1] = "ids" ->
                  /\ ys' = SelectSeq(Cur[2], LAMBDA i : i \in store /\ Allowed(i))
                  /\ pc' = "close" /\ Lab("ids") /\ UNCHANGED <<pos, mi>>
             [] Cur[1] = "created" ->
                  /\ pos' = SetRange(IF Has(Until) THEN <<1, Val(Until), IF RangeInclusive THEN 255 ELSE 0>> ELSE <<1, 255>>)
                  /\ pc' = "range" /\ Lab(IF Has(Until) THEN "seek-until" ELSE "seek-end") /\ UNCHANGED <<mi, ys>>
             [] OTHER ->
                  /\ mi' = 1 /\ pos' = NextMatch(1).pos
                  /\ pc' = "loop" /\ Lab("first") /\ UNCHANGED ys
        /\ UNCHANGED <<store, flt, ks, stage, allowed, ordered, ans>>

\* one iteration of the while loop of Index.scanner.iterator (match branch)
Loop == /\ pc = "loop"
        /\ LET key == KeyAt(pos)
               off == \/ ~StartsWith(key, CM[mi])
                      \/ (Has(Since) /\ TsOfKey(key) < Val(Since))
                      \/ (Has(Until) /\ TsOfKey(key) > Val(Until)) IN
           IF off THEN
               IF mi = Len(CM) THEN pc' = "close" /\ Lab("exhausted") /\ UNCHANGED <<pos, mi, ys>>
               ELSE LET nm == NextMatch(mi + 1) IN
                    /\ mi' = mi + 1 /\ pos' = nm.pos /\ UNCHANGED ys
                    /\ IF nm.skipped THEN pc' = "loop" /\ Lab("next") ELSE pc' = "close" /\ Lab("seek-failed")
           ELSE IF Less(key, Stop) THEN pc' = "close" /\ Lab("below-stop") /\ UNCHANGED <<pos, mi, ys>>
           ELSE /\ ys' = IF Allowed(IdOfKey(key)) THEN Append(ys, IdOfKey(key)) ELSE ys
                /\ pos' = pos - 1 /\ UNCHANGED mi
                /\ IF pos - 1 = 0 THEN pc' = "close" /\ Lab("yield,first-key") ELSE pc' = "loop" /\ Lab(IF Allowed(IdOfKey(key)) THEN "yield" ELSE "filtered")
        /\ UNCHANGED <<store, flt, ks, stage, allowed, ordered, ans>>

\* the created_at range scan (no matches)
Range1 == /\ pc = "range"
          /\ LET key == KeyAt(pos)
                 stop == <<1>> \o (IF Has(Since) THEN (IF RangeInclusive THEN <<Val(Since)>> ELSE <<Val(Since), 255>>) ELSE <<>>) IN
             IF pos # 0 /\ Less(stop, key) THEN
                 /\ ys' = IF key[1] = 1 THEN Append(ys, IdOfKey(key)) ELSE ys
                 /\ pos' = pos - 1
                 /\ IF pos - 1 = 0 THEN pc' = "close" /\ Lab("r-first-key") ELSE pc' = "range" /\ Lab(IF key[1] = 1 THEN "r-yield" ELSE "r-foreign")
             ELSE pc' = "close" /\ Lab("r-stop") /\ UNCHANGED <<pos, ys>>
          /\ UNCHANGED <<store, flt, ks, stage, allowed, mi, ordered, ans>>

\* end of one scanner; MultiIndex.scanner.iterator turns the yields into a set and restricts the next index to it
Close == /\ pc = "close"
         /\ IF Len(Chain(flt)) = 1 THEN pc' = "match" /\ UNCHANGED <<stage, allowed, ys, ordered>> /\ Lab("single")
            ELSE IF ys = <<>> \/ stage = Len(Chain(flt))
                 THEN /\ pc' = "match" /\ ordered' = FALSE /\ ys' = IdsDesc(ToSet(ys))    \* `yield from events`: a set, any order
                      /\ UNCHANGED <<stage, allowed>> /\ Lab(IF ys = <<>> THEN "chain-empty" ELSE "chain-end")
                 ELSE /\ pc' = "open" /\ stage' = stage + 1 /\ allowed' = <<ToSet(ys)>> /\ ys' = <<>> /\ UNCHANGED ordered
                      /\ Lab("chain-next")
         /\ UNCHANGED <<store, flt, ks, pos, mi, ans>>

RECURSIVE Dedup(_)
Dedup(s) == IF s = <<>> THEN <<>> ELSE LET r == Dedup(SubSeq(s, 1, Len(s) - 1)) x == s[Len(s)] IN
            IF x \in ToSet(r) THEN r ELSE Append(r, x)

\* matcher() + the limit of execute_one_plan.  For an unordered (chained) scan that is truncated, the answer is any
\* subset of the right size; `ans` then holds all candidates and Truncated says so.
Candidates == SelectSeq(Dedup(ys), LAMBDA i : RecordMatches(i, flt))
Match == /\ pc = "match"
         /\ ans' = IF ordered \/ Len(Candidates) <= Eff(flt) THEN SubSeq(Candidates, 1, Min(Len(Candidates), Eff(flt))) ELSE Candidates
         /\ pc' = "done" /\ Lab(IF Len(Candidates) > Eff(flt) THEN "truncated" ELSE "all")
         /\ UNCHANGED <<store, flt, ks, stage, allowed, pos, mi, ys, ordered>>
Truncated == ~ordered /\ Len(ans) > Eff(flt)

Next == Plan \/ Open \/ Loop \/ Range1 \/ Close \/ Match
Spec == Init /\ [][Next]_vars

----------------------------------------------------------------------------
(* what the transcription is held to (the query clauses of C01, C02, C12, for one filter) *)

Done == pc = "done"
Fs == <<flt>>

\* C01: only stored events matching the filter
KS_Sound == Done => Q!Sound(store, Fs, ans)
\* C02: everything strictly inside the window is there when the limit cannot truncate; nothing twice.
\*      (the record check ignores delegation: CompleteOwn, see the open finding lmdb-authors-ignores-delegation)
KS_Complete == (Done /\ ~Truncated) => Q!CompleteOwn(store, Fs, ans)
KS_Once == Done => Q!Multiplicity(store, Fs, ans)
\* C12: never more than the limit; with a single match value (one cursor walk) the newest are the ones sent
KS_AtMostLimit == (Done /\ ~Truncated) => Len(ans) <= Eff(flt)
SingleWalk(f) == Len(Chain(f)) = 1 /\ (Chain(f)[1][1] \in {"created", "ids"} \/ Len(Chain(f)[1][2]) = 1)
KS_NewestSingle == (Done /\ ~Refused(flt) /\ SingleWalk(flt) /\ Chain(flt)[1][1] # "ids") => Q!LimitOKG(store, Fs, ans, FALSE)
\* as found (open findings lmdb-multivalue-scan-not-globally-newest and the unordered chained scan): does not hold
KS_NewestAlways == (Done /\ ~Truncated) => Q!LimitOKG(store, Fs, ans, FALSE)
\* every scan honours both time bounds inclusively, as NIP-01 asks.  The writer relies on it (its kind-5 path walks the
\* author's index until created_at - 1 and must see every older own event), and so does C11: were the range scan and the
\* index scans to treat the bounds differently, adding a condition to a time-only filter could add results.
\* Holds with SeekTop = Top and RangeInclusive; as found, a lone 0xff missed an event at the upper bound whose id starts
\* 0xff (finding 20) and the range scan excluded `since` and kept one id at `until` (finding 21).
KS_WindowInclusive ==
    (Done /\ ~Truncated /\ ~Refused(flt) /\ Len(ans) < Eff(flt)) =>
        {i \in store : MatchesG(i, Ev(i), flt, FALSE, FALSE)} \subseteq ToSet(ans)
\* the step-wise walk and the functional one agree
KS_FnAgrees == (pc = "close" /\ Cur[1] \notin {"ids", "created"}) =>
                   ys = SelectSeq(ScanFn(ks, CM, Since, Until), LAMBDA i : Allowed(i))
\* the scanner hands the matcher a superset of the strict matches and the matcher decides: yields need not match
KS_Terminates == <>Done
=============================================================================
