SPECIFICATION Spec
CONSTANT AsFound = FALSE
CONSTRAINT Bound
INVARIANT C16_NoEmptyWindow
INVARIANT C16_ListExact
CHECK_DEADLOCK FALSE
