-------------------------- MODULE MC_RateLimiter --------------------------
(* Exhaustive configurations of RateLimiter.tla.  RulesA: global + ip + a specific address + an exempt address,
   two rules for one command; RulesB: ip only; RulesC: global + specific + exempt.  With RulesA the transcription violates C18_NoOverBlock
   (recorded open finding: the global deque records messages that the per-IP rule then refuses), so configuration A
   checks the other three formulas and B, C check all four.  Clock steps 0, 1, 30, 61 seconds around the 1 s and 60 s windows. *)
EXTENDS Integers, Sequences, FiniteSets, TLC
CONSTANTS MaxArrivals, Which
VARIABLES now, dq, hist

RulesA == [global |-> [EVENT |-> << <<60, 3>>, <<1, 2>> >>],
           ip |-> [EVENT |-> << <<1, 1>> >>, REQ |-> << <<60, 2>> >>]]
          @@ ("2.2.2.2" :> [EVENT |-> << <<60, 1>> >>]) @@ ("3.3.3.3" :> [EVENT |-> << <<1, -1>> >>])
RulesB == [ip |-> [EVENT |-> << <<60, 2>>, <<1, 1>> >>]]
RulesC == [global |-> [EVENT |-> << <<60, 2>> >>, REQ |-> << <<1, 1>> >>]]
          @@ ("2.2.2.2" :> [EVENT |-> << <<1, 2>> >>, REQ |-> << <<3600, 1>> >>]) @@ ("3.3.3.3" :> [REQ |-> << <<3600, -1>> >>])
RulesD == [ip |-> [EVENT |-> << <<60, 1>>, <<1, 3>> >>], global |-> [REQ |-> << <<3600, 3>>, <<60, 2>>, <<1, 4>> >>]]
\* exemptions (n = -1) listed beside limiting rules of the same command, on a longer and on a shorter interval: only
\* the rule that says -1 is switched off, the others of the list still bind
RulesE == [ip |-> [EVENT |-> << <<3600, -1>>, <<1, 2>> >>], global |-> [REQ |-> << <<60, 2>>, <<1, -1>> >>]]
          @@ ("3.3.3.3" :> [REQ |-> << <<60, -1>>, <<1, 1>> >>])
\* a specific address whose own rule has a longer window than any per-IP rule
RulesG == [ip |-> [EVENT |-> << <<1, 3>> >>]] @@ ("2.2.2.2" :> [EVENT |-> << <<60, 1>> >>, REQ |-> << <<3600, 2>> >>])
RulesDef == IF Which = "A" THEN RulesA ELSE IF Which = "B" THEN RulesB ELSE IF Which = "C" THEN RulesC
            ELSE IF Which = "D" THEN RulesD ELSE IF Which = "E" THEN RulesE ELSE RulesG

INSTANCE RateLimiter WITH Addrs <- {"1.1.1.1", "2.2.2.2", "3.3.3.3"}, Cmds <- {"EVENT", "REQ"}, Rules <- RulesDef,
                          Deltas <- {0, 1, 30, 61}
=============================================================================
