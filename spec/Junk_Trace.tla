----------------------------- MODULE Junk_Trace -----------------------------
(* Lines:  Junk c out | Probe c answered | Other same | End tasks handlers_ok regs_empty
   (Other: the well-behaved connection's transcript equals the transcript of the same run without the junk) *)
EXTENDS Integers, Sequences, FiniteSets, TLC, Json, TraceData
VARIABLES open, raised, tid, l, bad
J == INSTANCE Junk WITH Conns <- TD_JunkConns
Trace == Traces[tid]
Line == Trace[l]
TraceInit == tid \in DOMAIN Traces /\ l = 1 /\ bad = {} /\ J!Init
TraceNext ==
    /\ l <= Len(Trace)
    /\ UNCHANGED raised
    /\ open' = IF Line.a = "Junk" /\ Line.out \in {"closed", "raised"} THEN open \ {Line.c} ELSE open
    /\ bad' = bad \cup {<<n, l>> : n \in
            CASE Line.a = "Junk"  -> J!JunkVerdict(Line.c, Line.out)
              [] Line.a = "Probe" -> J!ProbeVerdict(Line.c, Line.answered)
              [] Line.a = "Other" -> (IF Line.same THEN {} ELSE {"C19_OthersUnaffected"})
              [] Line.a = "End"   -> J!EndVerdict(Line.tasks, Line.handlers_ok, Line.regs_empty)}
    /\ l' = l + 1 /\ tid' = tid
    /\ (l' > Len(Trace)) => PrintT("@@" \o ToJson([tid |-> tid, n |-> Len(Trace), bad |-> bad']))
TraceSpec == TraceInit /\ [][TraceNext]_<<open, raised, tid, l, bad>>
=============================================================================
