---------------------------- MODULE MC_Notifier ----------------------------
(* Exhaustive configuration of Notifier.tla: three workers, ids a,b from worker 1, c from worker 2, none from 3;
   two symbols per id; every chunking of every stream, one peer drop at any point and one (re)connection. *)
EXTENDS Integers, Sequences, FiniteSets, TLC
CONSTANT Exact
VARIABLES todo, upnet, upbuf, dnnet, dnbuf, alive, looked, owed, joins
IdsOfDef == (1 :> <<"a", "b">>) @@ (2 :> <<"c">>) @@ (3 :> <<>>)
INSTANCE Notifier WITH Workers <- {1, 2, 3}, IdsOf <- IdsOfDef, K <- 2
OneDrop == Cardinality({1, 2, 3} \ alive) <= 1 /\ joins <= 1
\* owed and joins are history variables: they do not influence behaviour
View == <<todo, upnet, upbuf, dnnet, dnbuf, alive, looked, owed, joins>>
=============================================================================
