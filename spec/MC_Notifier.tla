---------------------------- MODULE MC_Notifier ----------------------------
(* Exhaustive configuration of Notifier.tla: three workers, ids a,b from worker 1, c from worker 2, none from 3;
   two symbols per id; every chunking of every stream and one peer drop at any point. *)
EXTENDS Integers, Sequences, FiniteSets, TLC
CONSTANT Exact
VARIABLES todo, upnet, upbuf, dnnet, dnbuf, alive, looked
IdsOfDef == (1 :> <<"a", "b">>) @@ (2 :> <<"c">>) @@ (3 :> <<>>)
INSTANCE Notifier WITH Workers <- {1, 2, 3}, IdsOf <- IdsOfDef, K <- 2
OneDrop == Cardinality({1, 2, 3} \ alive) <= 1
=============================================================================
