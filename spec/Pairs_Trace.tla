----------------------------- MODULE Pairs_Trace -----------------------------
(***************************************************************************)
(* C11: relations between two (or more) answers of the real REQ path.       *)
(* Every line carries the stores the answers were computed over (as dumped  *)
(* from the real storage) and the answers; TLC checks the line's            *)
(* precondition itself, so the harness decides nothing:                     *)
(*  Unaffected f sa sb ra rb   sa subset of sb and no event of sb \ sa      *)
(*                             matches f (even loosely)  =>  same answer set*)
(*  Mono f g s rf rg           g narrows f (every condition of f is in g    *)
(*                             with no more values / no wider window)       *)
(*                             =>  answers to g are among the answers to f  *)
(*  Union f s rf parts         parts = the single-value restrictions of one *)
(*                             multi-valued condition of f, covering it     *)
(*                             =>  answer to f = union of their answers     *)
(* A line whose precondition does not hold is vacuous (counted, not judged).*)
(***************************************************************************)
EXTENDS Integers, Sequences, FiniteSets, TLC, Json, TraceData

VARIABLES tid, l, bad, judged

NN == INSTANCE Nostr WITH OneCharNames <- TD_OneCharNames
Ev(i) == TD_Universe[i]
Range(s) == {s[i] : i \in DOMAIN s}
M(i, f) == NN!Matches(i, Ev(i), f, FALSE)
Has(o) == o # <<>>
Val(o) == o[1]

SubOpt(fo, go) == Has(fo) => (Has(go) /\ Val(go) \subseteq Val(fo))
Narrows(f, g) ==
    /\ SubOpt(f.ids, g.ids) /\ SubOpt(f.authors, g.authors) /\ SubOpt(f.kinds, g.kinds)
    /\ \A tv \in f.tags : \E tw \in g.tags : tw[1] = tv[1] /\ tw[2] \subseteq tv[2]
    /\ (Has(f.since) => (Has(g.since) /\ Val(g.since) >= Val(f.since)))
    /\ (Has(f.until) => (Has(g.until) /\ Val(g.until) <= Val(f.until)))
    /\ ~NN!Degenerate(f) /\ ~NN!Degenerate(g)

\* the filters obtained from f by keeping one value of its field `fld` (ids / authors / kinds)
Singles(f, fld) ==
    CASE fld = "ids"     -> {[f EXCEPT !.ids = <<{v}>>] : v \in Val(f.ids)}
      [] fld = "authors" -> {[f EXCEPT !.authors = <<{v}>>] : v \in Val(f.authors)}
      [] fld = "kinds"   -> {[f EXCEPT !.kinds = <<{v}>>] : v \in Val(f.kinds)}
      [] OTHER -> {}
TagSingles(f, name) == {[f EXCEPT !.tags = (f.tags \ {tv \in f.tags : tv[1] = name}) \cup {<<name, {v}>>}] :
                          v \in UNION {tv[2] : tv \in {x \in f.tags : x[1] = name}}}

Judge(ln) ==
    CASE ln.a = "Unaffected" ->
            IF ln.sa \subseteq ln.sb /\ \A i \in ln.sb \ ln.sa : ~M(i, ln.f)
            THEN <<TRUE, IF Range(ln.ra) = Range(ln.rb) THEN {} ELSE {"C11_Unaffected"}>> ELSE <<FALSE, {}>>
      [] ln.a = "Mono" ->
            IF Narrows(ln.f, ln.g)
            THEN <<TRUE, IF Range(ln.rg) \subseteq Range(ln.rf) THEN {} ELSE {"C11_Monotone"}>> ELSE <<FALSE, {}>>
      [] ln.a = "Union" ->
            LET want == IF ln.fld \in {"ids", "authors", "kinds"} THEN Singles(ln.f, ln.fld) ELSE TagSingles(ln.f, ln.fld)
                got == {ln.parts[k].g : k \in DOMAIN ln.parts} IN
            IF want # {} /\ want = got /\ Cardinality(want) >= 2
            THEN <<TRUE, IF Range(ln.rf) = UNION {Range(ln.parts[k].r) : k \in DOMAIN ln.parts} THEN {} ELSE {"C11_UnionOfSingles"}>>
            ELSE <<FALSE, {}>>

TraceInit == tid \in DOMAIN Traces /\ l = 1 /\ bad = {} /\ judged = 0
TraceNext ==
    /\ l <= Len(Traces[tid])
    /\ LET j == Judge(Traces[tid][l]) IN
        /\ bad' = bad \cup {<<n, l>> : n \in j[2]}
        /\ judged' = judged + (IF j[1] THEN 1 ELSE 0)
    /\ l' = l + 1 /\ tid' = tid
    /\ (l' > Len(Traces[tid])) => PrintT("@@" \o ToJson([tid |-> tid, n |-> Len(Traces[tid]), bad |-> bad', judged |-> judged']))
TraceSpec == TraceInit /\ [][TraceNext]_<<tid, l, bad, judged>>
=============================================================================
