----------------------------- MODULE RateLimiter -----------------------------
(***************************************************************************)
(* The rate limiter (nostr_relay/rate_limiter.py).                          *)
(*                                                                         *)
(* Two levels in one module:                                               *)
(*  - the implementation-shaped state machine: RateLimiter.is_limited /     *)
(*    evaluate_rules / cleanup transcribed step for step (per key and       *)
(*    command a newest-first deque of admitted timestamps, cleared when the   *)
(*    newest entry is older than the longest interval, pruned of stale     *)
(*    entries (repaired in /repo, see known_findings.json),               *)
(*    insert-on-pass, scope order  address, "global", "ip");                *)
(*  - the contract of property C18 stated over the history of decisions     *)
(*    only (hist), independent of the deques.                               *)
(* TLC checks that the state machine satisfies the contract for every       *)
(* arrival sequence within the bounds, and validates recorded runs of the   *)
(* real class against the state machine (RateLimiter_Trace).                *)
(*                                                                         *)
(* Rules: function  scope -> [cmd -> sequence of <<interval, n>>]           *)
(*        scope is "global", "ip" or a specific address; n = -1 exempts.    *)
(***************************************************************************)
EXTENDS Integers, Sequences, FiniteSets, TLC

CONSTANTS Addrs,      \* client addresses
          Cmds,       \* message types
          Rules,      \* the configured rules (see above), as parse_options produces them (descending)
          Deltas,     \* by how much the clock may advance between two arrivals
          MaxArrivals \* bound on the history (model checking only)

VARIABLES now,        \* the clock (RateLimiter._timestamp)
          dq,         \* [key -> [cmd -> Seq(time)]]: recent_commands; key "global" or an address; newest first
          hist        \* history of decisions: Seq([t, addr, cmd, lim])

vars == <<now, dq, hist>>

Keys == {"global"} \cup Addrs
Scopes == DOMAIN Rules
HasRule(scope, cmd) == scope \in Scopes /\ cmd \in DOMAIN Rules[scope]
Range(s) == {s[i] : i \in DOMAIN s}
SetMax(S) == CHOOSE x \in S : \A y \in S : y <= x

Init == /\ now = 0
        /\ dq = [k \in Keys |-> [c \in Cmds |-> <<>>]]
        /\ hist = <<>>

----------------------------------------------------------------------------
(* evaluate_rules(rules, timestamps) at clock value t: <<limited, timestamps afterwards>> *)
MaxInterval(rs) == SetMax({rs[i][1] : i \in DOMAIN rs})
CountWithin(ts, t, interval) == Cardinality({i \in DOMAIN ts : t - ts[i] < interval})
Prune(ts, t, m) == SelectSeq(ts, LAMBDA x : t - x < m)              \* drop what is too old to count against any rule
Evaluate(rs, ts, t) ==
    IF ts = <<>> THEN <<FALSE, ts>>
    ELSE IF t - ts[1] > MaxInterval(rs) THEN <<FALSE, <<>> >>          \* everything is stale: clear
    ELSE LET kept == Prune(ts, t, MaxInterval(rs)) IN
         <<\E i \in DOMAIN rs : rs[i][2] >= 1 /\ CountWithin(kept, t, rs[i][1]) >= rs[i][2], kept>>

(* is_limited(addr, [cmd]): the scopes are visited in the order  addr, "global", "ip";
   a passing rule set records the timestamp; a specific-address rule ends the evaluation *)
RECURSIVE Visit(_, _, _, _, _)
Visit(scopes, addr, cmd, t, d) ==
    IF scopes = <<>> THEN <<FALSE, d>>
    ELSE LET scope == Head(scopes)
             key == IF scope = "global" THEN "global" ELSE addr
         IN IF ~HasRule(scope, cmd) THEN Visit(Tail(scopes), addr, cmd, t, d)
            ELSE LET ev == Evaluate(Rules[scope][cmd], d[key][cmd], t)
                     d1 == [d EXCEPT ![key][cmd] = ev[2]]
                 IN IF ev[1] THEN <<TRUE, d1>>
                    ELSE LET d2 == [d1 EXCEPT ![key][cmd] = <<t>> \o @]
                         IN IF scope \in Addrs THEN <<FALSE, d2>>
                            ELSE Visit(Tail(scopes), addr, cmd, t, d2)

Arrive(addr, cmd, delta) ==
    /\ now' = now + delta
    /\ LET r == Visit(<<addr, "global", "ip">>, addr, cmd, now', dq) IN
        /\ dq' = r[2]
        /\ hist' = Append(hist, [t |-> now', addr |-> addr, cmd |-> cmd, lim |-> r[1]])

(* cleanup(): drop per-address state that is older than the longest interval of any per-address rule - the "ip" section   *)
(* and the sections of specific addresses (as found, only the "ip" section was looked at: CleanupAsFound, finding 34)      *)
SectionMax(sc) == IF DOMAIN Rules[sc] # {} THEN SetMax({MaxInterval(Rules[sc][c]) : c \in DOMAIN Rules[sc]}) ELSE 0
IpMaxAsFound == IF "ip" \in Scopes THEN SectionMax("ip") ELSE 0
IpMax == SetMax({SectionMax(sc) : sc \in Scopes \ {"global"}} \cup {0})
CleanupWith(delta, m) ==
    /\ now' = now + delta
    /\ dq' = IF m = 0 THEN dq
             ELSE [k \in Keys |-> IF k = "global" THEN dq[k]
                                  ELSE [c \in Cmds |-> IF dq[k][c] = <<>> \/ now' - dq[k][c][1] > m THEN <<>> ELSE dq[k][c]]]
    /\ UNCHANGED hist
Cleanup(delta) == CleanupWith(delta, IpMax)
CleanupAsFound(delta) == CleanupWith(delta, IpMaxAsFound)

NextAsFound == \/ \E a \in Addrs, c \in Cmds, d \in Deltas : Arrive(a, c, d)
               \/ \E d \in Deltas : CleanupAsFound(d)
SpecAsFound == Init /\ [][NextAsFound]_vars

Next == \/ \E a \in Addrs, c \in Cmds, d \in Deltas : Arrive(a, c, d)
        \/ \E d \in Deltas : Cleanup(d)

Spec == Init /\ [][Next]_vars

----------------------------------------------------------------------------
(* The contract (C18), over the history of decisions only. *)

\* the rules that apply to a message: a specific-address rule for the command overrides the generic ones
Specific(addr, cmd) == HasRule(addr, cmd)
AppliesTo(scope, addr, cmd) ==
    /\ HasRule(scope, cmd)
    /\ IF Specific(addr, cmd) THEN scope = addr ELSE scope \in {"global", "ip"}
\* the earlier admitted messages that count against (scope, cmd) for a message from addr
Counted(scope, addr, cmd, k) ==
    {j \in 1..(k - 1) : /\ ~hist[j].lim /\ hist[j].cmd = cmd
                        /\ IF scope = "global" THEN ~Specific(hist[j].addr, cmd) ELSE hist[j].addr = addr}
InWindow(S, k, interval) == {j \in S : hist[k].t - hist[j].t < interval}

\* never more than n admitted messages in any window of the rule's length
WindowBoundAt(k) ==
    ~hist[k].lim =>
        \A scope \in Scopes : AppliesTo(scope, hist[k].addr, hist[k].cmd) =>
            \A i \in DOMAIN Rules[scope][hist[k].cmd] :
                LET r == Rules[scope][hist[k].cmd][i] IN
                r[2] >= 0 => Cardinality(InWindow(Counted(scope, hist[k].addr, hist[k].cmd, k), k, r[1])) + 1 <= r[2]
C18_WindowBound == \A k \in DOMAIN hist : WindowBoundAt(k)

\* a message is refused only when some applicable rule has already passed n messages within its interval
NoOverBlockAt(k) ==
    hist[k].lim =>
        \E scope \in Scopes : AppliesTo(scope, hist[k].addr, hist[k].cmd) /\
            \E i \in DOMAIN Rules[scope][hist[k].cmd] :
                LET r == Rules[scope][hist[k].cmd][i] IN
                r[2] >= 0 /\ Cardinality(InWindow(Counted(scope, hist[k].addr, hist[k].cmd, k), k, r[1])) >= r[2]
C18_NoOverBlock == \A k \in DOMAIN hist : NoOverBlockAt(k)

\* n = -1 exempts; a command without any applicable rule is never refused
ExemptAt(k) ==
        (\A scope \in Scopes : AppliesTo(scope, hist[k].addr, hist[k].cmd) =>
             \A i \in DOMAIN Rules[scope][hist[k].cmd] : Rules[scope][hist[k].cmd][i][2] < 0)
        => ~hist[k].lim
C18_Exempt == \A k \in DOMAIN hist : ExemptAt(k)

\* the state kept per key and command is bounded by the configured rates, not by the lifetime of the connection:
\* after any arrival no deque is longer than the admitted messages its longest window can hold (+1 for the arrival)
RateBound(scope, cmd) == SetMax({Rules[scope][cmd][i][2] : i \in DOMAIN Rules[scope][cmd]} \cup {0})
KeyBound(k, cmd) ==
    IF k = "global" THEN (IF HasRule("global", cmd) THEN RateBound("global", cmd) ELSE 0)
    ELSE SetMax({IF HasRule(k, cmd) THEN RateBound(k, cmd) ELSE 0, IF HasRule("ip", cmd) THEN RateBound("ip", cmd) ELSE 0})
Exempted(k, cmd) == \E scope \in {k, "ip", "global"} : HasRule(scope, cmd) /\ \E i \in DOMAIN Rules[scope][cmd] : Rules[scope][cmd][i][2] < 0
C18_StateBounded ==
    \A k \in Keys, c \in Cmds : ~Exempted(k, c) => Len(dq[k][c]) <= KeyBound(k, c) + 1

Bound == Len(hist) <= MaxArrivals /\ TLCGet("level") <= MaxArrivals + 2      \* (Cleanup steps do not extend hist)
=============================================================================
