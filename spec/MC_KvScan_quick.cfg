SPECIFICATION Spec
CONSTANT StoresC <- Stores_quick
CHECK_DEADLOCK FALSE
INVARIANT KS_Sound
INVARIANT KS_Complete
INVARIANT KS_Once
INVARIANT KS_AtMostLimit
INVARIANT KS_NewestSingle
