---------------------------- MODULE Relay_Trace ----------------------------
(***************************************************************************)
(* Validation of recorded executions of web.start_client + storage against  *)
(* Relay.tla.  The harness logs one line per step of the relay, in the real *)
(* order (single-threaded event loop), with the step's arguments:           *)
(*                                                                         *)
(*  Conn    c                       connection accepted                     *)
(*  Recv    c m                     the handler took a message (m = command) *)
(*  Req     c sid fs out gen reg    storage.subscribe finished (reg = the    *)
(*                                  connection's registry afterwards)       *)
(*  Close   c sid reg               storage.unsubscribe(c, sid)             *)
(*  Submit  c e                     storage.add_event entered                *)
(*  FanOut  c e targets             notify_all_connected created its tasks   *)
(*  Accept  c ok                    add_event returned / raised              *)
(*  Notify  c sid gen e put         a notify task finished                   *)
(*  QPut    c sid gen item          a query task enqueued an event / EOSE    *)
(*  Send    c f                     a frame was written (projected)          *)
(*  Limited c                       the rate limiter refused the message     *)
(*  Drop    c                       unsubscribe(c): connection ended         *)
(*  Idle    reg                     no task can run without the environment  *)
(*                                                                         *)
(* All Relay variables are determined by the log, so a line is explained    *)
(* iff the Relay action, evaluated on <<state, state after the line>>, is   *)
(* true.  A line that is not explained is recorded ("Conform") with the     *)
(* property bodies the step violates, its effect is adopted as far as it    *)
(* is known, and validation continues.                                      *)
(***************************************************************************)
EXTENDS Integers, Sequences, FiniteSets, TLC, Json, TraceData
\* TraceData is generated per batch by the harness (a stub lives in /verif/spec): it defines TD_Universe,
\* TD_OneCharNames, TD_Conns, TD_SubIds, TD_SubLimit, TD_Backend, TD_Gens and Traces as literal definitions
\* (constants given through the cfg file are re-evaluated on every access, see DESIGN 4.7)

Conns == TD_Conns

VARIABLES open, reg, outbox, qtask, eosed, pn, nf, accepted, sent, busy, owes,
          tid, l, bad,
          cur        \* [c -> <<>> | <<command>>]: the message connection c's handler took from the socket and has not handled yet

R == INSTANCE Relay WITH Universe <- TD_Universe, OneCharNames <- TD_OneCharNames, Conns <- TD_Conns, SubIds <- TD_SubIds,
                         SubLimit <- TD_SubLimit, Backend <- TD_Backend, Gens <- TD_Gens, FilterSets <- {}

rvars == <<open, reg, outbox, qtask, eosed, pn, nf, accepted, sent, busy, owes>>
Trace == Traces[tid]
Line == Trace[l]
Range(s) == {s[i] : i \in DOMAIN s}

TraceInit == tid \in DOMAIN Traces /\ l = 1 /\ bad = {} /\ R!Init /\ cur = [c \in Conns |-> <<>>]

\* every message taken from the socket is handled exactly once: by the action of its command, or - when the rate limiter
\* refuses it - not at all (Limited).  Recv lines set cur; the handling lines consume it.
Handles(ln) == CASE ln.a = "Req" -> "REQ" [] ln.a = "Close" -> "CLOSE" [] ln.a = "Submit" -> "EVENT" [] OTHER -> "-"
CurVerdict(ln) ==
    IF ln.a \in {"Req", "Close", "Submit"} /\ cur[ln.c] # <<Handles(ln)>> THEN {"C13_OneHandlingPerMessage"}
    ELSE IF ln.a = "Limited" /\ cur[ln.c] = <<>> THEN {"C18_LimitedIsNotProcessed"}
    ELSE IF ln.a = "Recv" /\ cur[ln.c] # <<>> /\ cur[ln.c] # <<"OTHER">> THEN {"C13_OneHandlingPerMessage"}
    ELSE {}
CurNext(ln) == IF ln.a = "Recv" THEN [cur EXCEPT ![ln.c] = <<ln.m>>]
               ELSE IF ln.a \in {"Req", "Close", "Submit", "Limited"} THEN [cur EXCEPT ![ln.c] = <<>>]
               ELSE IF ln.a = "Drop" THEN [cur EXCEPT ![ln.c] = <<>>]
               ELSE cur

\* the registry of connection c as logged: [sid -> gen]
RegGens(c) == [s \in DOMAIN reg[c] |-> reg[c][s].gen]
RegGensNext(c) == [s \in DOMAIN reg'[c] |-> reg'[c][s].gen]     \* (not RegGens(c)': the argument must not be primed)

\* the owner of a generation's query task, remembered from the Req line: generations are unique, so the
\* (c, sid, fs) of a generation is looked up in the trace prefix
\* (the trace and the position are parameters: TLC cannot evaluate state-level definitions inside ENABLED)
ReqOf(tr, ll, g) == CHOOSE k \in 1..(ll - 1) : tr[k].a = "Req" /\ tr[k].gen = g
HasReq(tr, ll, g) == \E k \in 1..(ll - 1) : tr[k].a = "Req" /\ tr[k].gen = g

Step(ln, tr, ll) ==
    CASE ln.a = "Conn"   -> R!Connect(ln.c)
      \* (whether the relay's own registry agrees with the specification's is judged separately, RegistryVerdict:
      \*  the specification's registry - what the client has been led to believe - is what later steps are held to)
      [] ln.a = "Req"    -> R!Req(ln.c, ln.sid, ln.fs, ln.out, ln.gen)
      [] ln.a = "Close"  -> R!Close(ln.c, ln.sid)
      [] ln.a = "Submit" -> R!Submit(ln.c, ln.e)
      [] ln.a = "FanOut" -> R!FanOut(ln.c, ln.e, ln.r)
                            /\ {<<n.c, n.sid, n.gen>> : n \in pn' \ pn} = Range(ln.targets)
                            /\ Cardinality(pn' \ pn) = Len(ln.targets)
      [] ln.a = "Accept" -> R!Accept(ln.c, ln.ok)
      [] ln.a = "Notify" -> \E n \in pn : n.c = ln.c /\ n.sid = ln.sid /\ n.gen = ln.gen /\ n.e = ln.e /\ n.r = ln.r /\ R!Notify(n, ln.put)
      [] ln.a = "QPut"   -> /\ HasReq(tr, ll, ln.gen)
                            /\ LET rq == tr[ReqOf(tr, ll, ln.gen)] IN
                               /\ rq.c = ln.c /\ rq.sid = ln.sid
                               /\ IF ln.item = "EOSE" THEN R!QPutEose(ln.c, ln.sid, ln.gen)
                                  ELSE \/ R!QPutEvent(ln.c, ln.sid, ln.gen, ln.item, rq.fs)
                                       \/ \E c2 \in Conns : R!QPutEventEarly(ln.c, ln.sid, ln.gen, ln.item, rq.fs, c2)
      [] ln.a = "Send"   -> CASE ln.f.t \in {"EVENT", "EOSE"} ->
                                    /\ R!Send(ln.c)
                                    /\ LET fr == sent'[ln.c][Len(sent'[ln.c])] IN
                                       fr.t = ln.f.t /\ fr.sid = ln.f.sid /\ (ln.f.t = "EVENT" => fr.e = ln.f.e)
                              [] ln.f.t = "OK" -> \/ /\ R!ReplyOk(ln.c, ln.f.ok)
                                                      \* a refusal may carry an empty id ("?")
                                                      /\ (ln.f.e = busy[ln.c][1] \/ (~ln.f.ok /\ ln.f.e = "?"))
                                                   \/ (~ln.f.ok /\ R!RefuseOk(ln.c))
                              [] ln.f.t = "NOTICE" -> R!Notice(ln.c)
                              [] OTHER -> FALSE
      [] ln.a = "Limited" -> R!Limited(ln.c)
      [] ln.a = "Drop"   -> R!Disconnect(ln.c)
      [] OTHER -> FALSE

\* what is adopted when no action explains the line (best effort, so that the rest of the trace is still examined)
With(f, k, v) == [x \in DOMAIN f \cup {k} |-> IF x = k THEN v ELSE f[x]]
Adopt(ln) ==
    CASE ln.a = "Conn" -> open' = open \cup {ln.c} /\ UNCHANGED <<reg, outbox, qtask, eosed, pn, nf, accepted, sent, busy, owes>>
      [] ln.a \in {"Req", "Close"} ->
            /\ reg' = [reg EXCEPT ![ln.c] = [s \in DOMAIN ln.reg |->
                          IF s \in DOMAIN reg[ln.c] /\ reg[ln.c][s].gen = ln.reg[s] THEN reg[ln.c][s]
                          ELSE [gen |-> ln.reg[s], fs |-> IF ln.a = "Req" THEN ln.fs ELSE <<>>]]]
            /\ qtask' = [g \in DOMAIN qtask \cup (IF ln.a = "Req" /\ ln.gen # 0 THEN {ln.gen} ELSE {}) |->
                          IF g \in DOMAIN qtask
                          THEN (IF qtask[g] = "run" /\ g \notin {ln.reg[s] : s \in DOMAIN ln.reg}
                                   /\ g \in {reg[ln.c][s].gen : s \in DOMAIN reg[ln.c]} THEN "cancelled" ELSE qtask[g])
                          ELSE "run"]
            /\ outbox' = IF ln.a = "Req" /\ ln.out = "eose" THEN [outbox EXCEPT ![ln.c] = Append(@, <<ln.sid, 0, "EOSE">>)] ELSE outbox
            /\ owes' = IF ln.a = "Req" /\ ln.out \in {"toomany", "restricted", "error"} THEN [owes EXCEPT ![ln.c] = 1] ELSE owes
            /\ UNCHANGED <<open, eosed, pn, nf, accepted, sent, busy>>
      [] ln.a = "Submit" -> busy' = [busy EXCEPT ![ln.c] = <<ln.e, "in", FALSE>>]
                            /\ UNCHANGED <<open, reg, outbox, qtask, eosed, pn, nf, accepted, sent, owes>>
      [] ln.a = "FanOut" ->
            /\ nf' = nf + 1
            /\ pn' = pn \cup {[c |-> t[1], sid |-> t[2], gen |-> t[3],
                               fs |-> IF t[2] \in DOMAIN reg[t[1]] /\ reg[t[1]][t[2]].gen = t[3] THEN reg[t[1]][t[2]].fs ELSE <<>>,
                               e |-> ln.e, r |-> nf + 1] : t \in Range(ln.targets)}
            /\ accepted' = accepted \cup {ln.e}
            /\ busy' = IF ln.c \in Conns /\ busy[ln.c] # <<>> THEN [busy EXCEPT ![ln.c] = <<ln.e, "fanned", FALSE>>] ELSE busy
            /\ UNCHANGED <<open, reg, outbox, qtask, eosed, sent, owes>>
      [] ln.a = "Accept" -> busy' = [busy EXCEPT ![ln.c] = IF busy[ln.c] # <<>> THEN <<busy[ln.c][1], "ret", ln.ok>> ELSE <<"?", "ret", ln.ok>>]
                            /\ UNCHANGED <<open, reg, outbox, qtask, eosed, pn, nf, accepted, sent, owes>>
      [] ln.a = "Notify" ->
            /\ pn' = {n \in pn : ~(n.c = ln.c /\ n.sid = ln.sid /\ n.gen = ln.gen /\ n.e = ln.e /\ n.r = ln.r)} /\ UNCHANGED nf
            /\ outbox' = IF ln.put THEN [outbox EXCEPT ![ln.c] = Append(@, <<ln.sid, ln.gen, ln.e>>)] ELSE outbox
            /\ UNCHANGED <<open, reg, qtask, eosed, accepted, sent, busy, owes>>
      [] ln.a = "QPut" ->
            /\ outbox' = [outbox EXCEPT ![ln.c] = Append(@, <<ln.sid, ln.gen, ln.item>>)]
            /\ eosed' = IF ln.item = "EOSE" THEN eosed \cup {ln.gen} ELSE eosed
            /\ qtask' = IF ln.item = "EOSE" /\ ln.gen \in DOMAIN qtask /\ qtask[ln.gen] = "run"
                        THEN [qtask EXCEPT ![ln.gen] = "done"] ELSE qtask
            /\ UNCHANGED <<open, reg, pn, nf, accepted, sent, busy, owes>>
      [] ln.a = "Send" ->
            /\ sent' = [sent EXCEPT ![ln.c] = Append(@,
                          IF ln.f.t \in {"EVENT", "EOSE"} /\ outbox[ln.c] # <<>>
                          THEN (IF ln.f.t = "EOSE" THEN [t |-> "EOSE", sid |-> ln.f.sid, gen |-> Head(outbox[ln.c])[2]]
                                ELSE [t |-> "EVENT", sid |-> ln.f.sid, gen |-> Head(outbox[ln.c])[2], e |-> ln.f.e])
                          ELSE [t |-> "OTHER"])]
            /\ outbox' = IF ln.f.t \in {"EVENT", "EOSE"} /\ outbox[ln.c] # <<>> THEN [outbox EXCEPT ![ln.c] = Tail(@)] ELSE outbox
            /\ busy' = IF ln.f.t = "OK" THEN [busy EXCEPT ![ln.c] = <<>>] ELSE busy
            /\ owes' = IF ln.f.t = "NOTICE" \/ (ln.f.t = "OK" /\ busy[ln.c] = <<>>) THEN [owes EXCEPT ![ln.c] = 0] ELSE owes
            /\ UNCHANGED <<open, reg, qtask, eosed, pn, nf, accepted>>
      [] ln.a = "Limited" -> owes' = [owes EXCEPT ![ln.c] = 1] /\ UNCHANGED <<open, reg, outbox, qtask, eosed, pn, nf, accepted, sent, busy>>
      [] ln.a = "Drop" ->
            /\ open' = open \ {ln.c} /\ reg' = [reg EXCEPT ![ln.c] = <<>>] /\ owes' = [owes EXCEPT ![ln.c] = 0]
            /\ busy' = [busy EXCEPT ![ln.c] = <<>>]
            /\ UNCHANGED <<outbox, qtask, eosed, pn, nf, accepted, sent>>
      [] OTHER -> UNCHANGED rvars

Garbage(ln) == ln.a = "Send" /\ ln.f.t = "GARBAGE"
RegistryVerdict(ln) == IF ln.a \in {"Req", "Close"} /\ RegGensNext(ln.c) # ln.reg THEN {"C13_RegistryAgrees"} ELSE {}

\* an Idle line: the loop cannot make progress without the environment, so nothing may be pending
IdleVerdict(ln) ==
    (IF pn = {} /\ \A c \in open : outbox[c] = <<>> THEN {} ELSE {"C05_EventuallyDelivered"})
    \cup (IF \A g \in DOMAIN qtask : qtask[g] # "run" /\ (qtask[g] = "done" => g \in eosed) THEN {} ELSE {"C13_EventuallyEose"})
    \cup (IF \A c \in Conns : busy[c] = <<>> THEN {} ELSE {"C06_EventuallyOk"})
    \cup (IF \A c \in Conns : owes[c] = 0 THEN {} ELSE {"C13_NeverSilent"})
    \cup (IF \A c \in open : RegGens(c) = ln.reg[c] THEN {} ELSE {"C13_RegistryAgrees"})
\* the End line: every connection has ended; its subscriptions are gone and no task of the relay is left
EndVerdict(ln) ==
    (IF ln.tasks = 0 THEN {} ELSE {"C19_TasksFinish"})
    \cup (IF open = {} /\ \A c \in Conns : reg[c] = <<>> THEN {} ELSE {"C19_SubscriptionsDropped"})
    \cup (IF ln.handlers_ok THEN {} ELSE {"C19_HandlerNeverRaises"})

TraceNext ==
    /\ l <= Len(Trace)
    /\ cur' = CurNext(Line)
    /\ IF Line.a = "Recv"
       THEN /\ UNCHANGED rvars
            /\ bad' = bad \cup {<<n, l>> : n \in CurVerdict(Line)}
       ELSE IF Garbage(Line)
       THEN /\ UNCHANGED rvars
            /\ bad' = bad \cup {<<"C04_WellFormedFrame", l>>}
       ELSE IF Line.a = "Idle"
       THEN /\ UNCHANGED rvars
            /\ bad' = bad \cup {<<n, l>> : n \in IdleVerdict(Line)}
       ELSE IF Line.a = "End"
       THEN /\ UNCHANGED rvars
            /\ bad' = bad \cup {<<n, l>> : n \in EndVerdict(Line)}
       ELSE IF ENABLED Step(Line, Trace, l)
            THEN /\ Step(Line, Trace, l)
                 /\ bad' = bad \cup {<<n, l>> : n \in R!StepVerdict \cup R!StateVerdict' \cup RegistryVerdict(Line) \cup CurVerdict(Line)}
            ELSE /\ Adopt(Line)
                 /\ bad' = bad \cup {<<"Conform", l>>} \cup {<<n, l>> : n \in R!StepVerdict \cup R!StateVerdict'}
    /\ l' = l + 1
    /\ tid' = tid
    /\ (l' > Len(Trace)) => PrintT("@@" \o ToJson([tid |-> tid, n |-> Len(Trace), bad |-> bad']))

TraceSpec == TraceInit /\ [][TraceNext]_<<rvars, tid, l, bad, cur>>
=============================================================================
