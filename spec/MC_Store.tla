----------------------------- MODULE MC_Store -----------------------------
(* Exhaustive configuration of Store.tla: a hand-made universe that contains
   every relationship the properties quantify over (regular, replaceable with
   a timestamp tie, parameterised replaceable with d-values that are prefixes
   of one another and an absent d tag, deletion of own / foreign / unknown
   ids, ephemeral, expiring, forged, malformed-but-authentic). *)
EXTENDS Integers, Sequences, FiniteSets, TLC
CONSTANT Backend
VARIABLES store, wq, bcast, last

E(pk, kind, ts, tags, auth, exp) == [pk |-> pk, kind |-> kind, ts |-> ts, tags |-> tags, auth |-> auth, exp |-> exp]
UniverseDef ==
  [ n1 |-> E("A", 1, 10, <<>>, TRUE, <<>>),
    nb |-> E("B", 1, 10, <<>>, TRUE, <<>>),
    r1 |-> E("A", 10000, 10, <<>>, TRUE, <<>>),
    r2 |-> E("A", 10000, 20, <<>>, TRUE, <<>>),
    r3 |-> E("A", 10000, 20, << <<"t", "x">> >>, TRUE, <<>>),
    p1 |-> E("A", 30000, 10, << <<"d", "a">> >>, TRUE, <<>>),
    p2 |-> E("A", 30000, 20, << <<"d", "ab">> >>, TRUE, <<>>),
    p3 |-> E("A", 30000, 30, << <<"d", "a">> >>, TRUE, <<>>),
    p0 |-> E("A", 30000, 30, <<>>, TRUE, <<>>),
    d1 |-> E("A", 5, 25, << <<"e", "n1">>, <<"e", "nb">>, <<"e", "p3">>, <<"e", "zz">> >>, TRUE, <<>>),
    x1 |-> E("A", 20000, 10, <<>>, TRUE, <<>>),
    ex |-> E("B", 1, 10, << <<"expiration", "t15">> >>, TRUE, <<"n", 15>>),
    fg |-> E("A", 1, 10, <<>>, FALSE, <<>>),
    \* a deletion with a reference that is not an id: may be refused (without a trace) or applied
    dq |-> [pk |-> "A", kind |-> 5, ts |-> 26, tags |-> << <<"e", "r1">>, <<"e", "junk">> >>, auth |-> TRUE, exp |-> <<>>, dub |-> TRUE] ]

INSTANCE Store WITH Universe <- UniverseDef, OneCharNames <- {"d", "e", "t"},
                    PolicyRefused <- {}, GcTimes <- {15, 16}

\* bulk loads of a few dumps (out-of-order versions, a forgery, a deletion, a malformed deletion) on top of everything else
LoadSeqs == { <<"r2", "r1", "fg", "d1">>, <<"p1", "p3", "p0", "dq", "n1">>, <<"n1", "nb", "d1", "n1", "x1", "ex">> }
NextL == Next \/ \E sq \in LoadSeqs : Load(sq)
SpecL == Init /\ [][NextL]_vars

Depth == 6
Bound == TLCGet("level") <= Depth /\ Len(wq) <= 3
View == <<store, wq>>
=============================================================================
