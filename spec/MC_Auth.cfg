SPECIFICATION Spec
VIEW View
PROPERTY C15_OnlyValidAuth
PROPERTY C15_FailedAuthKeepsIdentity
PROPERTY C15_NoCrossReplay
PROPERTY C14_RoleCheck
PROPERTY C14_SessionRolesCurrent
CHECK_DEADLOCK FALSE
