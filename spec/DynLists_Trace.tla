--------------------------- MODULE DynLists_Trace ---------------------------
(***************************************************************************)
(* Validation of recorded refreshes of the real ListBuilder.run_once: the   *)
(* module-level sets are replaced (harness-side) by a set subclass that     *)
(* reports every mutation, and after every mutation is_pubkey_allowed is    *)
(* asked about every key - i.e. every state a validator thread could        *)
(* observe is observed.                                                     *)
(*   Start  store        a refresh begins; store = ids of the stored events *)
(*   Read   key allowed allow    after a mutation: the allow set and the    *)
(*                               validator's answer for key                 *)
(*   Done   allow        the refresh returned                               *)
(*   Worker w store allow   worker process w finished its start-up          *)
(* The target list is computed here from the store: the p-tagged keys of    *)
(* the events matching the configured query, plus the static whitelist.     *)
(***************************************************************************)
EXTENDS Integers, Sequences, FiniteSets, TLC, Json, TraceData

VARIABLES allow, old, new, pc, reads, tid, l, bad

NN == INSTANCE Nostr WITH OneCharNames <- TD_OneCharNames
D == INSTANCE DynLists WITH Keys <- TD_Keys, Static <- TD_Static, Targets <- {}, AsFound <- FALSE

Trace == Traces[tid]
Line == Trace[l]
Ev(i) == TD_Universe[i]
TargetOf(store) == UNION {NN!TagVals(Ev(i), "p") : i \in {j \in store : NN!Matches(j, Ev(j), TD_AllowQuery, FALSE)}}

TraceInit == tid \in DOMAIN Traces /\ l = 1 /\ bad = {} /\ D!Init

TraceNext ==
    /\ l <= Len(Trace)
    /\ CASE Line.a = "Start" ->
              /\ old' = allow /\ new' = D!Full(TargetOf(Line.store)) /\ pc' = "busy"
              /\ UNCHANGED <<allow, reads>> /\ bad' = bad
         [] Line.a = "Read" ->
              /\ allow' = Line.allow
              /\ reads' = {[key |-> Line.key, allowed |-> Line.allowed, old |-> old, new |-> new, busy |-> TRUE]}
              /\ UNCHANGED <<old, new, pc>>
              /\ bad' = bad \cup {<<n, l>> : n \in
                    (IF D!ReadOK([key |-> Line.key, allowed |-> Line.allowed, old |-> old, new |-> new, busy |-> TRUE]) THEN {} ELSE {"C16_NoEmptyWindow"})
                    \cup (IF Line.allowed = (Line.allow = {} \/ Line.key \in Line.allow) THEN {} ELSE {"C16_ValidatorReadsList"})}
         [] Line.a = "Worker" ->
              \* worker process w has started (web.start_mainprocess_tasks returned, its first refresh is over): every worker
              \* keeps its own copy of the lists, and each copy must be the exact list
              /\ UNCHANGED <<allow, old, new, pc, reads>>
              /\ bad' = bad \cup {<<n, l>> : n \in IF Line.allow = D!Full(TargetOf(Line.store)) THEN {} ELSE {"C16_EveryWorkerHasLists"}}
         [] Line.a = "Done" ->
              /\ allow' = Line.allow /\ pc' = "idle"
              /\ UNCHANGED <<old, new, reads>>
              /\ bad' = bad \cup {<<n, l>> : n \in IF Line.allow = new THEN {} ELSE {"C16_ListExact"}}
    /\ l' = l + 1 /\ tid' = tid
    /\ (l' > Len(Trace)) => PrintT("@@" \o ToJson([tid |-> tid, n |-> Len(Trace), bad |-> bad']))

TraceSpec == TraceInit /\ [][TraceNext]_<<allow, old, new, pc, reads, tid, l, bad>>
=============================================================================
