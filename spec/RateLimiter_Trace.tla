------------------------- MODULE RateLimiter_Trace -------------------------
(***************************************************************************)
(* Validation of recorded runs of the real nostr_relay.rate_limiter         *)
(* .RateLimiter (clock injected) against RateLimiter.tla.  One line per     *)
(* call:  [a |-> "Arrive", t, addr, cmd, lim, dq]  or  [a |-> "Cleanup",    *)
(* t, dq]  with dq the complete projected deque state after the call.       *)
(* A line is explained iff the transcribed action holds on                  *)
(* <<state, logged state>>; the contract formulas of C18 are evaluated for  *)
(* the decision just taken.                                                  *)
(***************************************************************************)
EXTENDS Integers, Sequences, FiniteSets, TLC, Json, TraceData

VARIABLES now, dq, hist, tid, l, bad

RL == INSTANCE RateLimiter WITH Addrs <- TD_Addrs, Cmds <- TD_Cmds, Rules <- TD_Rules, Deltas <- {}, MaxArrivals <- 0

Trace == Traces[tid]
Line == Trace[l]

TraceInit == tid \in DOMAIN Traces /\ l = 1 /\ bad = {} /\ RL!Init

Conforms(ln) == IF ln.a = "Arrive" THEN RL!Arrive(ln.addr, ln.cmd, ln.t - now) /\ hist'[Len(hist')].lim = ln.lim
                ELSE RL!Cleanup(ln.t - now)

TraceNext ==
    /\ l <= Len(Trace)
    /\ now' = Line.t
    /\ dq' = Line.dq
    /\ hist' = IF Line.a = "Arrive" THEN Append(hist, [t |-> Line.t, addr |-> Line.addr, cmd |-> Line.cmd, lim |-> Line.lim]) ELSE hist
    /\ bad' = bad \cup {<<n, l>> : n \in
                (IF Conforms(Line) THEN {} ELSE {"Conform"})
                \cup (IF Line.a # "Arrive" THEN {} ELSE
                        (IF RL!WindowBoundAt(Len(hist))' THEN {} ELSE {"C18_WindowBound"})
                        \cup (IF RL!NoOverBlockAt(Len(hist))' THEN {} ELSE {"C18_NoOverBlock"})
                        \cup (IF RL!ExemptAt(Len(hist))' THEN {} ELSE {"C18_Exempt"}))
                \cup (IF RL!C18_StateBounded' THEN {} ELSE {"C18_StateBounded"})}
    /\ l' = l + 1
    /\ tid' = tid
    /\ (l' > Len(Trace)) => PrintT("@@" \o ToJson([tid |-> tid, n |-> Len(Trace), bad |-> bad']))

TraceSpec == TraceInit /\ [][TraceNext]_<<now, dq, hist, tid, l, bad>>
=============================================================================
