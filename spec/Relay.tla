------------------------------- MODULE Relay -------------------------------
(***************************************************************************)
(* Connections, subscriptions and live fan-out of the relay                 *)
(* (web.start_client, BaseStorage.subscribe / unsubscribe /                 *)
(* notify_all_connected, BaseSubscription.notify, send_subscriptions).      *)
(*                                                                         *)
(* One action per stretch of code between two points where a coroutine can  *)
(* really be suspended:                                                     *)
(*   Connect(c)              start_client entered                           *)
(*   Req(c, sid, fs, out, g) handler: REQ -> storage.subscribe (atomic:     *)
(*                           none of its awaits suspends)                   *)
(*   Notice(c)               handler writes the NOTICE of a refused REQ     *)
(*   Limited(c) / RefuseOk   the rate limiter refused the message           *)
(*   Close(c, sid)           handler: CLOSE -> storage.unsubscribe          *)
(*   Submit(c, e)            handler: EVENT -> enters storage.add_event     *)
(*   FanOut(c, e)            add_event accepted e (committed / queued) and  *)
(*                           notify_all_connected, having waited for the    *)
(*                           previous round of notify tasks, snapshots the  *)
(*                           registry into one notify task per subscription *)
(*   Accept(c, ok)           add_event returns (or raises)                  *)
(*   ReplyOk(c)              handler writes the OK frame                    *)
(*   Notify(n, put)          one notify task runs: matches the event with   *)
(*                           the filters of the Subscription object it was  *)
(*                           created for and enqueues it                    *)
(*   QPutEvent / QPutEose    the query task of generation g enqueues a      *)
(*                           stored event / the EOSE sentinel               *)
(*   Send(c)                 sender task: pop the outbox head, write frame  *)
(*   Disconnect(c)           handler leaves its loop: registry entry        *)
(*                           dropped, sender cancelled                      *)
(* A subscription generation g identifies one Subscription object: a REQ    *)
(* re-using a sub id creates a new generation and cancels the old one.      *)
(* The store is abstracted to `accepted` (Store.tla has its exact contract):*)
(* a stored result is an accepted event that matches the filters.           *)
(***************************************************************************)
EXTENDS Nostr, TLC

CONSTANTS Universe,      \* id -> event record
          Conns,         \* connection ids
          SubIds,        \* subscription ids clients use
          FilterSets,    \* the filter lists clients may send (sequences of filters)
          SubLimit,      \* Config.subscription_limit (0 = unlimited)
          Backend,       \* "sql" | "lmdb": LMDB's query task emits EOSE from a finally block, also when cancelled
          Gens           \* generation identifiers

VARIABLES open,       \* set of connected clients
          reg,        \* [c -> [sid -> [gen, fs]]]: storage.clients
          outbox,     \* [c -> Seq(<<sid, gen, item>>)], item an id or "EOSE": the subscription_queue
          qtask,      \* [gen -> "run" | "done" | "cancelled"]: query tasks (its domain = generations used)
          eosed,      \* generations whose EOSE sentinel has been enqueued
          pn,         \* pending notify tasks: records [c, sid, gen, fs, e, r] (r = the fan-out round that created it)
          nf,         \* number of fan-out rounds so far
          accepted,   \* ids accepted so far
          sent,       \* [c -> Seq(frame)]: history of frames written to the socket
          busy,       \* [c -> <<>> | <<e, phase, ok>>]: handler inside an EVENT; phase "in" | "committed" | "fanned" | "ret" (add_event returned ok)
          owes        \* [c -> number of NOTICE frames the handler still has to write]

vars == <<open, reg, outbox, qtask, eosed, pn, nf, accepted, sent, busy, owes>>

Ev(i) == Universe[i]
Ids == DOMAIN Universe
EOSE == "EOSE"

Subs(c) == DOMAIN reg[c]
Registered == {cs \in Conns \X SubIds : cs[2] \in Subs(cs[1])}

\* live matching must agree with stored matching except on the since/until bounds
LiveMay(i, fs)  == \E j \in DOMAIN fs : ~Degenerate(fs[j]) /\ Matches(i, Ev(i), fs[j], FALSE)
LiveMust(i, fs) == \E j \in DOMAIN fs : ~Degenerate(fs[j]) /\ Matches(i, Ev(i), fs[j], TRUE)
Evaluable(fs) == \E j \in DOMAIN fs : ~Degenerate(fs[j])
Init == /\ open = {}
        /\ reg = [c \in Conns |-> <<>>]
        /\ outbox = [c \in Conns |-> <<>>]
        /\ qtask = <<>>
        /\ eosed = {}
        /\ pn = {}
        /\ nf = 0
        /\ accepted = {}
        /\ sent = [c \in Conns |-> <<>>]
        /\ busy = [c \in Conns |-> <<>>]
        /\ owes = [c \in Conns |-> 0]

Cancelled(q, g) == IF g \in DOMAIN q /\ q[g] = "run" THEN [q EXCEPT ![g] = "cancelled"] ELSE q
Without(f, k) == [x \in DOMAIN f \ {k} |-> f[x]]
With(f, k, v) == [x \in DOMAIN f \cup {k} |-> IF x = k THEN v ELSE f[x]]
Idle(c) == c \in open /\ busy[c] = <<>> /\ owes[c] = 0

Connect(c) ==
    /\ c \notin open /\ sent[c] = <<>>            \* a connection id is used once
    /\ open' = open \cup {c}
    /\ UNCHANGED <<reg, outbox, qtask, eosed, pn, nf, accepted, sent, busy, owes>>

(* REQ.  out says what happened:
     "started"     subscription registered under the fresh generation g, query task created
     "eose"        no filter the relay will evaluate: EOSE enqueued at once, nothing registered
     "toomany"     subscription_limit reached: refused with a NOTICE, the other subscriptions stay
     "restricted"  role check failed: refused with a NOTICE
   In every case a subscription already registered under sid has been removed and cancelled first. *)
Req(c, sid, fs, out, g) ==
    /\ Idle(c)
    /\ LET hadOld == sid \in Subs(c)
           r1 == IF hadOld THEN Without(reg[c], sid) ELSE reg[c]
           q1 == IF hadOld THEN Cancelled(qtask, reg[c][sid].gen) ELSE qtask
           full == SubLimit > 0 /\ Cardinality(DOMAIN r1) = SubLimit
       IN
       \/ /\ out = "toomany" /\ full
          /\ reg' = [reg EXCEPT ![c] = r1] /\ qtask' = q1
          /\ owes' = [owes EXCEPT ![c] = 1]
          /\ UNCHANGED outbox
       \/ /\ out = "restricted" /\ ~full /\ Evaluable(fs)
          /\ reg' = [reg EXCEPT ![c] = r1] /\ qtask' = q1
          /\ owes' = [owes EXCEPT ![c] = 1]
          /\ UNCHANGED outbox
       \/ /\ out = "eose" /\ ~full /\ ~Evaluable(fs)
          /\ reg' = [reg EXCEPT ![c] = r1] /\ qtask' = q1
          /\ outbox' = [outbox EXCEPT ![c] = Append(@, <<sid, 0, EOSE>>)]
          /\ UNCHANGED owes
       \/ /\ out = "started" /\ ~full /\ Evaluable(fs)
          /\ g \in Gens /\ g \notin DOMAIN qtask
          /\ reg' = [reg EXCEPT ![c] = With(r1, sid, [gen |-> g, fs |-> fs])]
          /\ qtask' = With(q1, g, "run")
          /\ UNCHANGED <<outbox, owes>>
    /\ UNCHANGED <<open, eosed, pn, nf, accepted, sent, busy>>

Notice(c) ==
    /\ c \in open /\ owes[c] > 0
    /\ owes' = [owes EXCEPT ![c] = @ - 1]
    /\ sent' = [sent EXCEPT ![c] = Append(@, [t |-> "NOTICE"])]
    /\ UNCHANGED <<open, reg, outbox, qtask, eosed, pn, nf, accepted, busy>>

(* the rate limiter refused the message (web.start_client calls is_limited before anything else): the message is not
   processed at all; the client is owed NOTICE "rate-limited", or OK false if it was an EVENT *)
Limited(c) ==
    /\ Idle(c)
    /\ owes' = [owes EXCEPT ![c] = 1]
    /\ UNCHANGED <<open, reg, outbox, qtask, eosed, pn, nf, accepted, sent, busy>>
RefuseOk(c) ==
    /\ c \in open /\ owes[c] > 0 /\ busy[c] = <<>>
    /\ owes' = [owes EXCEPT ![c] = @ - 1]
    /\ sent' = [sent EXCEPT ![c] = Append(@, [t |-> "OK", e |-> "?", ok |-> FALSE])]
    /\ UNCHANGED <<open, reg, outbox, qtask, eosed, pn, nf, accepted, busy>>

Close(c, sid) ==
    /\ Idle(c)
    /\ IF sid \in Subs(c)
       THEN /\ reg' = [reg EXCEPT ![c] = Without(@, sid)]
            /\ qtask' = Cancelled(qtask, reg[c][sid].gen)
       ELSE UNCHANGED <<reg, qtask>>
    /\ UNCHANGED <<open, outbox, eosed, pn, nf, accepted, sent, busy, owes>>

(* query task of generation g, created for connection c / subscription id sid with filters fs.
   It keeps running after a disconnect (only CLOSE and a replacing REQ cancel it). *)
QPutEvent(c, sid, g, i, fs) ==
    /\ g \in DOMAIN qtask /\ qtask[g] = "run" /\ g \notin eosed
    /\ i \in accepted /\ LiveMay(i, fs)
    /\ outbox' = [outbox EXCEPT ![c] = Append(@, <<sid, g, i>>)]
    /\ UNCHANGED <<open, reg, qtask, eosed, pn, nf, accepted, sent, busy, owes>>

QPutEose(c, sid, g) ==
    /\ g \in DOMAIN qtask /\ g \notin eosed
    /\ \/ qtask[g] = "run" /\ qtask' = [qtask EXCEPT ![g] = "done"]
       \/ qtask[g] = "cancelled" /\ Backend = "lmdb" /\ UNCHANGED qtask     \* EOSE from the finally block
    /\ eosed' = eosed \cup {g}
    /\ outbox' = [outbox EXCEPT ![c] = Append(@, <<sid, g, EOSE>>)]
    /\ UNCHANGED <<open, reg, pn, nf, accepted, sent, busy, owes>>

Submit(c, e) ==
    /\ Idle(c)
    /\ busy' = [busy EXCEPT ![c] = <<e, "in", FALSE>>]
    /\ UNCHANGED <<open, reg, outbox, qtask, eosed, pn, nf, accepted, sent, owes>>

(* the storage made e durable (SQL: the transaction committed; it is visible to queries from now on) ... *)
Commit(c) ==
    /\ busy[c] # <<>> /\ busy[c][2] = "in"
    /\ busy[c][1] \in Ids /\ Ev(busy[c][1]).auth
    /\ accepted' = accepted \cup {busy[c][1]}
    /\ busy' = [busy EXCEPT ![c] = <<busy[c][1], "committed", FALSE>>]
    /\ UNCHANGED <<open, reg, outbox, qtask, eosed, pn, nf, sent, owes>>

(* ... a query task that runs between the commit and the fan-out already sees the event: the commit is not
   observable from outside, so a recorded execution shows it only through this composition Commit(c2) . QPutEvent *)
QPutEventEarly(c, sid, g, i, fs, c2) ==
    /\ busy[c2] = <<i, "in", FALSE>> /\ i \in Ids /\ Ev(i).auth
    /\ i \notin accepted
    /\ g \in DOMAIN qtask /\ qtask[g] = "run" /\ g \notin eosed
    /\ LiveMay(i, fs)
    /\ accepted' = accepted \cup {i}
    /\ busy' = [busy EXCEPT ![c2] = <<i, "committed", FALSE>>]
    /\ outbox' = [outbox EXCEPT ![c] = Append(@, <<sid, g, i>>)]
    /\ UNCHANGED <<open, reg, qtask, eosed, pn, nf, sent, owes>>

(* ... and notify_all_connected creates one notify task per registered subscription of every
   connection, carrying the filters registered at this instant.  (The code first waits for the tasks of the previous
   round, but two handlers can be inside this function at once, so rounds may overlap.) *)
FanOut(c, e, r) ==
    /\ busy[c] \in {<<e, "in", FALSE>>, <<e, "committed", FALSE>>}
    /\ Ev(e).auth
    /\ r = nf + 1
    /\ nf' = r
    /\ pn' = pn \cup {[c |-> cs[1], sid |-> cs[2], gen |-> reg[cs[1]][cs[2]].gen, fs |-> reg[cs[1]][cs[2]].fs, e |-> e, r |-> r] :
                        cs \in Registered}
    /\ accepted' = accepted \cup {e}
    /\ busy' = [busy EXCEPT ![c] = <<e, "fanned", FALSE>>]
    /\ UNCHANGED <<open, reg, outbox, qtask, eosed, sent, owes>>

(* add_event returns: TRUE iff the event was new, and then it has been handed to the fan-out.
   (An event that became durable is always fanned out: there is no return from phase "committed".) *)
Accept(c, ok) ==
    /\ busy[c] # <<>> /\ busy[c][2] \in {"in", "fanned"}
    /\ ok = (busy[c][2] = "fanned")
    /\ busy' = [busy EXCEPT ![c] = <<busy[c][1], "ret", ok>>]
    /\ UNCHANGED <<open, reg, outbox, qtask, eosed, pn, nf, accepted, sent, owes>>

ReplyOk(c, ok) ==
    /\ busy[c] # <<>> /\ busy[c][2] = "ret" /\ busy[c][3] = ok
    /\ sent' = [sent EXCEPT ![c] = Append(@, [t |-> "OK", e |-> busy[c][1], ok |-> ok])]
    /\ busy' = [busy EXCEPT ![c] = <<>>]
    /\ UNCHANGED <<open, reg, outbox, qtask, eosed, pn, nf, accepted, owes>>

(* a notify task: put = whether it enqueued the event *)
Notify(n, put) ==
    /\ n \in pn
    /\ pn' = pn \ {n} /\ UNCHANGED nf
    /\ (put => LiveMay(n.e, n.fs))
    /\ (~put => ~LiveMust(n.e, n.fs))
    /\ outbox' = IF put THEN [outbox EXCEPT ![n.c] = Append(@, <<n.sid, n.gen, n.e>>)] ELSE outbox
    /\ UNCHANGED <<open, reg, qtask, eosed, accepted, sent, busy, owes>>

Send(c) ==
    /\ c \in open
    /\ outbox[c] # <<>>
    /\ LET h == Head(outbox[c]) IN
       sent' = [sent EXCEPT ![c] = Append(@, IF h[3] = EOSE THEN [t |-> "EOSE", sid |-> h[1], gen |-> h[2]]
                                              ELSE [t |-> "EVENT", sid |-> h[1], gen |-> h[2], e |-> h[3]])]
    /\ outbox' = [outbox EXCEPT ![c] = Tail(@)]
    /\ UNCHANGED <<open, reg, qtask, eosed, pn, nf, accepted, busy, owes>>

(* the connection ends: all its subscriptions are dropped, its sender is cancelled.  Query and notify tasks that
   still hold the queue may keep putting into it; nothing is sent any more. *)
Disconnect(c) ==
    /\ c \in open /\ busy[c] = <<>>
    /\ open' = open \ {c}
    /\ reg' = [reg EXCEPT ![c] = <<>>]
    /\ owes' = [owes EXCEPT ![c] = 0]
    /\ UNCHANGED <<outbox, qtask, eosed, pn, nf, accepted, sent, busy>>

Next ==
    \/ \E c \in Conns : Connect(c) \/ Disconnect(c) \/ Send(c) \/ Notice(c) \/ Commit(c) \/ Limited(c) \/ RefuseOk(c)
    \/ \E c \in Conns, sid \in SubIds, fs \in FilterSets, out \in {"eose", "toomany"} : Req(c, sid, fs, out, 0)
    \/ \E c \in Conns, sid \in SubIds, fs \in FilterSets, g \in Gens :
          /\ g \notin DOMAIN qtask /\ \A h \in Gens : h < g => h \in DOMAIN qtask     \* generations are used in order
          /\ Req(c, sid, fs, "started", g)
    \/ \E c \in Conns, sid \in SubIds : Close(c, sid)
    \/ \E c \in Conns, e \in Ids : Submit(c, e) \/ FanOut(c, e, nf + 1)
    \/ \E c \in Conns, ok \in BOOLEAN : Accept(c, ok) \/ ReplyOk(c, ok)
    \/ \E n \in pn, put \in BOOLEAN : Notify(n, put)
    \/ \E cs \in Registered, i \in Ids :
          QPutEvent(cs[1], cs[2], reg[cs[1]][cs[2]].gen, i, reg[cs[1]][cs[2]].fs)
    \/ \E cs \in Registered : QPutEose(cs[1], cs[2], reg[cs[1]][cs[2]].gen)

Spec == Init /\ [][Next]_vars

\* every task of the relay eventually runs (the asyncio loop is fair to ready tasks); the environment is not obliged to do anything
Internal == \/ \E c \in Conns : Send(c) \/ Notice(c) \/ Commit(c)
            \/ \E c \in Conns, e \in Ids : FanOut(c, e, nf + 1)
            \/ \E c \in Conns, ok \in BOOLEAN : Accept(c, ok) \/ ReplyOk(c, ok)
            \/ \E n \in pn, put \in BOOLEAN : Notify(n, put)
            \/ \E cs \in Registered : QPutEose(cs[1], cs[2], reg[cs[1]][cs[2]].gen)
FairSpec == Spec /\ WF_vars(Internal)
            /\ (\A c \in Conns : WF_vars(Send(c)) /\ WF_vars(Notice(c)) /\ WF_vars(\E ok \in BOOLEAN : ReplyOk(c, ok)))
            /\ (\A d \in Conns : WF_vars(\E ok \in BOOLEAN : Accept(d, ok)) /\ WF_vars(\E e \in Ids : FanOut(d, e, nf + 1)))
            /\ WF_vars(\E n \in pn, put \in BOOLEAN : Notify(n, put))
            /\ WF_vars(\E cs \in Registered : QPutEose(cs[1], cs[2], reg[cs[1]][cs[2]].gen))

----------------------------------------------------------------------------
(* Properties.  Invariants, and action properties [][A_Cxx]_vars whose bodies are named so that the trace
   specification can evaluate them on every step of every recorded execution. *)

Queued(c) == {outbox[c][k] : k \in DOMAIN outbox[c]}
SentItems(c) == {<<sent[c][k].sid, sent[c][k].gen, IF sent[c][k].t = "EOSE" THEN EOSE ELSE sent[c][k].e>> :
                    k \in {m \in DOMAIN sent[c] : sent[c][m].t \in {"EOSE", "EVENT"}}}
EoseCount(c, g) == Cardinality({k \in DOMAIN outbox[c] : outbox[c][k][2] = g /\ outbox[c][k][3] = EOSE})
                   + Cardinality({k \in DOMAIN sent[c] : sent[c][k].t = "EOSE" /\ sent[c][k].gen = g})

\* C13: at most one EOSE per generation
C13_OneEose == \A c \in Conns, g \in DOMAIN qtask : EoseCount(c, g) <= 1
\* C13: never more than subscription_limit subscriptions
C13_SubLimit == \A c \in Conns : SubLimit > 0 => Cardinality(Subs(c)) <= SubLimit
\* C13 / C05: whatever is queued or sent belongs to a generation that was registered (gen 0: the immediate EOSE)
C13_OnlyRegisteredGens == \A c \in Conns : \A it \in Queued(c) \cup SentItems(c) : it[2] = 0 \/ it[2] \in DOMAIN qtask
\* C01 at this level: only accepted events are ever queued or sent
C01_OnlyAccepted == \A c \in Conns : \A it \in Queued(c) \cup SentItems(c) : it[3] = EOSE \/ it[3] \in accepted
\* C03 at this level: only authentic events are ever accepted (and hence queued, sent or pushed)
C03_OnlyAuthenticAccepted == \A i \in accepted : i \in Ids /\ Ev(i).auth
\* C13: a registered subscription has a query task that is not cancelled
C13_RegisteredIsLive == \A cs \in Registered : reg[cs[1]][cs[2]].gen \in DOMAIN qtask /\ qtask[reg[cs[1]][cs[2]].gen] # "cancelled"

\* C13: stored results of a generation precede its EOSE: what is enqueued for an EOSE'd generation is a live push
A_C13_StoredBeforeEose ==
    \A c \in Conns : Len(outbox'[c]) = Len(outbox[c]) + 1 =>
        LET it == outbox'[c][Len(outbox'[c])] IN
        (it[3] # EOSE /\ it[2] \in eosed) => \E n \in pn : n \notin pn' /\ <<n.sid, n.gen, n.e>> = it
\* C13: after CLOSE / replacement the cancelled generation gets no further stored result
A_C13_NoStoredAfterCancel ==
    \A c \in Conns : Len(outbox'[c]) = Len(outbox[c]) + 1 =>
        LET it == outbox'[c][Len(outbox'[c])] IN
        (it[3] # EOSE /\ it[2] \in DOMAIN qtask /\ qtask[it[2]] = "cancelled")
            => \E n \in pn : n \notin pn' /\ <<n.sid, n.gen, n.e>> = it
\* C13: a refused REQ leaves the other subscriptions of the connection as they were
A_C13_RefusedKeepsOthers ==
    \A c \in Conns : owes'[c] > owes[c] =>
        /\ Cardinality(Subs(c) \ DOMAIN reg'[c]) <= 1
        /\ \A s \in DOMAIN reg'[c] : s \in Subs(c) /\ reg'[c][s] = reg[c][s]
\* C05: a fan-out creates exactly one notify task per subscription registered at that instant, for no one else
A_C05_FanOutExact ==
    nf' # nf =>
        LET new == pn' \ pn IN
        /\ pn \subseteq pn'
        /\ \A n \in new : n.r = nf'
        /\ {<<n.c, n.sid, n.gen>> : n \in new} = {<<cs[1], cs[2], reg[cs[1]][cs[2]].gen>> : cs \in Registered}
        /\ Cardinality(new) = Cardinality(Registered)
\* C05: a notify task pushes iff the event matches the filters its subscription had when the round was created
\* (must push when it matches strictly inside the window, must not when it does not match even loosely)
A_C05_LiveMatchAgrees ==
    \A n \in pn \ pn' :
        LET pushed == /\ Len(outbox'[n.c]) = Len(outbox[n.c]) + 1
                      /\ outbox'[n.c][Len(outbox'[n.c])] = <<n.sid, n.gen, n.e>>
        IN (pushed => LiveMay(n.e, n.fs)) /\ (~pushed => ~LiveMust(n.e, n.fs))
\* C05: live pushes come only from notify tasks, each task pushes at most once and decides by matching
A_C05_PushOnlyByNotify ==
    \A c \in Conns : (Len(outbox'[c]) = Len(outbox[c]) + 1 /\ pn' = pn) =>
        LET it == outbox'[c][Len(outbox'[c])] IN it[3] = EOSE \/ (it[2] \in DOMAIN qtask /\ qtask[it[2]] = "run")
\* C06: exactly one OK per EVENT, TRUE iff the event was accepted and handed to the fan-out
A_C06_OkMatchesOutcome ==
    \A c \in Conns : (Len(sent'[c]) = Len(sent[c]) + 1 /\ sent'[c][Len(sent'[c])].t = "OK") =>
        \/ /\ busy[c] # <<>> /\ busy'[c] = <<>>
           /\ busy[c][2] = "ret" /\ busy[c][3] = sent'[c][Len(sent'[c])].ok
        \/ /\ busy[c] = <<>> /\ owes[c] > 0 /\ ~sent'[c][Len(sent'[c])].ok        \* the refusal of a rate-limited EVENT

C13_StoredBeforeEose    == [][A_C13_StoredBeforeEose]_vars
C13_NoStoredAfterCancel == [][A_C13_NoStoredAfterCancel]_vars
C13_RefusedKeepsOthers  == [][A_C13_RefusedKeepsOthers]_vars
C05_FanOutExact         == [][A_C05_FanOutExact]_vars
C05_PushOnlyByNotify    == [][A_C05_PushOnlyByNotify]_vars
C05_LiveMatchAgrees     == [][A_C05_LiveMatchAgrees]_vars
C06_OkMatchesOutcome    == [][A_C06_OkMatchesOutcome]_vars

\* liveness (checked under FairSpec on a tiny instance, MC_Relay_live): an EVENT is eventually answered, a pending notify
\* task eventually runs, what is queued for a connected client is eventually sent, a refused REQ eventually gets its NOTICE
L_EventuallyOk == \A c \in Conns : (busy[c] # <<>>) ~> (busy[c] = <<>>)
L_EventuallyNotified == (pn # {}) ~> (pn = {})
L_EventuallySent == \A c \in Conns : (c \in open /\ outbox[c] # <<>>) ~> (outbox[c] = <<>> \/ c \notin open)
L_NeverSilent == \A c \in Conns : (owes[c] > 0) ~> (owes[c] = 0)

\* nothing is pending: what "every REQ is eventually answered, every accepted event eventually delivered" means
\* at a point where no task can run without the environment
Quiescent ==
    /\ pn = {}
    /\ \A c \in Conns : busy[c] = <<>> /\ owes[c] = 0 /\ (c \in open => outbox[c] = <<>>)
    /\ \A g \in DOMAIN qtask : qtask[g] # "run" /\ (qtask[g] = "done" => g \in eosed)

StepVerdict ==
    (IF A_C13_StoredBeforeEose THEN {} ELSE {"C13_StoredBeforeEose"})
    \cup (IF A_C13_NoStoredAfterCancel THEN {} ELSE {"C13_NoStoredAfterCancel"})
    \cup (IF A_C13_RefusedKeepsOthers THEN {} ELSE {"C13_RefusedKeepsOthers"})
    \cup (IF A_C05_FanOutExact THEN {} ELSE {"C05_FanOutExact"})
    \cup (IF A_C05_PushOnlyByNotify THEN {} ELSE {"C05_PushOnlyByNotify"})
    \cup (IF A_C05_LiveMatchAgrees THEN {} ELSE {"C05_LiveMatchAgrees"})
    \cup (IF A_C06_OkMatchesOutcome THEN {} ELSE {"C06_OkMatchesOutcome"})
StateVerdict ==
    (IF C13_OneEose THEN {} ELSE {"C13_OneEose"})
    \cup (IF C13_SubLimit THEN {} ELSE {"C13_SubLimit"})
    \cup (IF C13_OnlyRegisteredGens THEN {} ELSE {"C13_OnlyRegisteredGens"})
    \cup (IF C01_OnlyAccepted THEN {} ELSE {"C01_OnlyAccepted"})
    \cup (IF C13_RegisteredIsLive THEN {} ELSE {"C13_RegisteredIsLive"})
    \cup (IF C03_OnlyAuthenticAccepted THEN {} ELSE {"C03_OnlyAuthenticAccepted"})

=============================================================================
