------------------------------ MODULE TraceData ------------------------------
EXTENDS Integers, Sequences, TLC
(* Stub.  The harness writes a TraceData.tla with the same definitions next to the copy of the trace specification it
   runs (one per batch of recorded traces); this file only makes the trace specifications parse on their own. *)
TD_Universe == [e0 |-> [pk |-> "A", kind |-> 1, ts |-> 0, tags |-> <<>>, auth |-> TRUE, exp |-> <<>>]]
TD_OneCharNames == {}
TD_Conns == {0}
TD_SubIds == {"s1"}
TD_SubLimit == 0
TD_Backend == "sql"
TD_Gens == {1}
TD_MaxLimit == 100
TD_PolicyRefused == {}
TD_Addrs == {"1.1.1.1"}
TD_Cmds == {"EVENT"}
TD_Rules == [global |-> [EVENT |-> << <<1, 1>> >>]]
TD_Workers == {1, 2}
TD_IdsOf == (1 :> <<"a">>) @@ (2 :> <<>>)
TD_K == 2
TD_Keys == {"A"}
TD_RolesOf == [A |-> {"w"}]
TD_DefaultRoles == {"a"}
TD_ActionRoles == [save |-> {"w"}, query |-> {"r"}]
TD_Whitelist == {"A"}
TD_ValCfg == [max_size |-> 1, oldest |-> 1, valid_kinds |-> {1}, whitelist |-> {"A"}, blacklist |-> {}, require_pow |-> 0, hell_limit |-> 0, service_pk |-> "S"]
TD_Static == {}
TD_AllowQuery == [ids |-> <<>>, authors |-> <<>>, kinds |-> <<{3}>>, tags |-> {}, since |-> <<>>, until |-> <<>>, limit |-> <<>>]
TD_JunkConns == {0, 1}
TD_PkSym == [A |-> 1]
TD_IdSym == [e0 |-> 1]
TD_Chars == [a |-> <<97>>]
Traces == <<>>
=============================================================================
