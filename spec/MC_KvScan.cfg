SPECIFICATION Spec
CONSTANT StoresC <- Stores_full
CONSTANT SeekTopC <- SeekRepaired
CONSTANT RangeC <- TRUE
CHECK_DEADLOCK FALSE
INVARIANT KS_Sound
INVARIANT KS_Complete
INVARIANT KS_Once
INVARIANT KS_AtMostLimit
INVARIANT KS_NewestSingle
INVARIANT KS_WindowInclusive
INVARIANT KS_FnAgrees
