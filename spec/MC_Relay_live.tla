--------------------------- MODULE MC_Relay_live ---------------------------
(* Liveness of Relay.tla under weak fairness of the relay's own tasks, on a tiny instance without state constraint:
   one connection, one sub id, one filter list, one event, unlimited subscriptions, two generations. *)
EXTENDS Integers, Sequences, FiniteSets, TLC
VARIABLES open, reg, outbox, qtask, eosed, pn, nf, accepted, sent, busy, owes
E(pk, kind, ts, tags) == [pk |-> pk, kind |-> kind, ts |-> ts, tags |-> tags, auth |-> TRUE, exp |-> <<>>]
UniverseDef == [ n1 |-> E("A", 1, 10, <<>>) ]
FK == [ids |-> <<>>, authors |-> <<>>, kinds |-> <<{1}>>, tags |-> {}, since |-> <<>>, until |-> <<>>, limit |-> <<>>]
INSTANCE Relay WITH Universe <- UniverseDef, OneCharNames <- {}, Conns <- {1}, SubIds <- {"s1"}, FilterSets <- { <<FK>> },
                    SubLimit <- 0, Backend <- "sql", Gens <- 1..2
\* the environment acts only finitely often: at most two frames are ever written and one fan-out happens
EnvBound == Len(sent[1]) <= 3 /\ nf <= 1 /\ Len(outbox[1]) <= 3
=============================================================================
