----------------------------- MODULE Auth_Trace -----------------------------
(***************************************************************************)
(* Validation of recorded AUTH attempts and authorisation decisions of the  *)
(* real Authenticator / web.start_client / storages against Auth.tla.       *)
(*   Auth     c p ok [who]      an AUTH message, whether it was accepted and *)
(*                              the identity the session then names          *)
(*   Probe    c action allowed [sid]  an EVENT (save) / REQ (query), its fate *)
(*   Push     c sid             an EVENT frame arrived under that sub id    *)
(*   Closed   c                 the relay closed the connection             *)
(*   CanDo    roles action cfg allowed   Authenticator.can_do called        *)
(*            directly (roles = <<>> for no token, else <<set>>)            *)
(*   SetRoles key roles / GetRoles key roles    role assignments            *)
(*   Deliver  c pk kind how     an event reached connection c (stored/live) *)
(*            while an output validator is configured                       *)
(***************************************************************************)
EXTENDS Integers, Sequences, FiniteSets, TLC, Json, TraceData

VARIABLES token, roles, last, assigned, refused, tid, l, bad

A == INSTANCE Auth WITH Conns <- TD_Conns, Keys <- TD_Keys, RolesOf <- TD_RolesOf, DefaultRoles <- TD_DefaultRoles,
                        ActionRoles <- TD_ActionRoles

Trace == Traces[tid]
Line == Trace[l]

TraceInit == tid \in DOMAIN Traces /\ l = 1 /\ bad = {} /\ A!Init /\ assigned = <<>> /\ refused = {}

With(f, k, v) == [x \in DOMAIN f \cup {k} |-> IF x = k THEN v ELSE f[x]]
\* the recipe's output validator: the event's author or the authenticated reader is whitelisted, or it is a relay list
OutOK(c, pk, kind) == pk \in TD_Whitelist \/ (token[c].st = "auth" /\ token[c].key \in TD_Whitelist) \/ kind = 10002

TraceNext ==
    /\ l <= Len(Trace)
    /\ CASE Line.a = "Auth" ->
              \* (who: the identity the session was given, where the recorder can see it; else the signer is assumed and the
              \*  probes that follow show whose roles the connection really has)
              /\ token' = IF Line.ok THEN [token EXCEPT ![Line.c] = A!Session(IF "who" \in DOMAIN Line THEN Line.who ELSE Line.p.signer,
                                                                              IF "roles" \in DOMAIN Line THEN Line.roles ELSE roles[Line.p.signer])]
                          ELSE token
              /\ UNCHANGED roles
              /\ last' = [a |-> "auth", c |-> Line.c, p |-> Line.p, ok |-> Line.ok]
              /\ UNCHANGED <<assigned, refused>>
              /\ bad' = bad \cup {<<n, l>> : n \in (IF A!Auth(Line.c, Line.p, Line.ok) THEN {} ELSE {"Conform"}) \cup A!StepVerdict}
         [] Line.a = "Closed" ->
              \* the relay closed connection c (close code logged)
              /\ token' = [token EXCEPT ![Line.c] = A!Closed]
              /\ UNCHANGED roles
              /\ last' = [a |-> "close", c |-> Line.c]
              /\ UNCHANGED <<assigned, refused>>
              /\ bad' = bad \cup {<<n, l>> : n \in A!StepVerdict}
         [] Line.a = "Probe" ->
              /\ UNCHANGED <<token, roles, assigned>>
              /\ last' = [a |-> "probe", c |-> Line.c, action |-> Line.action, allowed |-> Line.allowed]
              \* a REQ that was refused ("restricted") must stay without any effect: remember its subscription id
              /\ refused' = IF Line.action = "query" /\ ~Line.allowed /\ "sid" \in DOMAIN Line THEN refused \cup {<<Line.c, Line.sid>>} ELSE refused
              /\ bad' = bad \cup {<<n, l>> : n \in A!StepVerdict}
         [] Line.a = "Push" ->
              \* an EVENT frame arrived on connection c under subscription id sid
              /\ UNCHANGED <<token, roles, last, assigned, refused>>
              /\ bad' = bad \cup {<<n, l>> : n \in IF <<Line.c, Line.sid>> \in refused THEN {"C14_RefusedReqHasNoEffect"} ELSE {}}
         [] Line.a = "CanDo" ->
              /\ UNCHANGED <<token, roles, last, assigned, refused>>
              /\ bad' = bad \cup {<<n, l>> : n \in
                     IF Line.allowed = ((IF Line.roles = <<>> THEN TD_DefaultRoles ELSE Line.roles[1]) \cap Line.cfg # {})
                     THEN {} ELSE {"C14_RoleCheck"}}
         [] Line.a = "SetRoles" ->
              /\ assigned' = With(assigned, Line.key, Line.roles)
              \* (a key of the role matrix is also a key of Auth.tla: the assignment takes effect at its next AUTH)
              /\ roles' = IF Line.key \in DOMAIN roles THEN [roles EXCEPT ![Line.key] = Line.roles] ELSE roles
              /\ UNCHANGED <<token, last, refused>> /\ bad' = bad
         [] Line.a = "GetRoles" ->
              /\ UNCHANGED <<token, roles, last, assigned, refused>>
              /\ bad' = bad \cup {<<n, l>> : n \in
                     IF Line.roles = (IF Line.key \in DOMAIN assigned THEN assigned[Line.key] ELSE TD_DefaultRoles)
                     THEN {} ELSE {"C14_RolesReadBack"}}
         [] Line.a = "Deliver" ->
              /\ UNCHANGED <<token, roles, last, assigned, refused>>
              /\ bad' = bad \cup {<<n, l>> : n \in IF OutOK(Line.c, Line.pk, Line.kind) THEN {} ELSE {"C14_OutputValidated"}}
    /\ l' = l + 1
    /\ tid' = tid
    /\ (l' > Len(Trace)) => PrintT("@@" \o ToJson([tid |-> tid, n |-> Len(Trace), bad |-> bad']))

TraceSpec == TraceInit /\ [][TraceNext]_<<token, roles, last, assigned, refused, tid, l, bad>>
=============================================================================
